"""Tier-B runtime: a small deterministic coroutine scheduler that stands in for the worker
runtime (event class, task group, bounded queue, virtual clock) so that hypercorn's protocol
layer (ProtocolWrapper, H11Protocol, H2Protocol, HTTPStream, WSStream, and the real
`_handle` of either task-group module) can be driven coroutine by coroutine.

Scheduling is FIFO over ready tasks, like asyncio's call_soon queue; optional `order`
hook lets a harness permute the ready queue (solver-chosen schedules).
"""
from __future__ import annotations

from collections import deque
from typing import Any, Awaitable, Callable, Deque, List, Optional


class _Park:
    """Awaitable that parks the current task until `waker` re-queues it."""

    __slots__ = ("reg",)

    def __init__(self, reg: Callable[["Task"], None]) -> None:
        self.reg = reg

    def __await__(self):
        yield self


import asyncio as _asyncio  # noqa: E402


class Cancelled(BaseException):
    pass


class Task:
    _n = 0

    def __init__(self, sched: "Sched", coro, name: str = "") -> None:
        Task._n += 1
        self.id = Task._n
        self.sched = sched
        self.coro = coro
        self.name = name or getattr(coro, "__qualname__", "task")
        self.done = False
        self.result: Any = None
        self.exc: Optional[BaseException] = None
        self.parked_on: Any = None
        self.cancel_requested = False

    def __repr__(self) -> str:
        return f"<Task {self.id} {self.name} done={self.done} parked={self.parked_on is not None}>"

    def cancel(self) -> None:
        if self.done:
            return
        self.cancel_requested = True
        if self.parked_on is not None:
            unpark = getattr(self.parked_on, "discard", None)
            if unpark is not None:
                unpark(self)
            self.parked_on = None
            self.sched.ready.append(self)


class Sched:
    def __init__(self) -> None:
        self.ready: Deque[Task] = deque()
        self.tasks: List[Task] = []
        self.now = 0
        self.timers: List[tuple] = []  # (when, seq, task)
        self._seq = 0
        self.steps = 0
        self.errors: List[tuple] = []  # (task name, exception) that escaped a task
        self.order: Optional[Callable[[Deque[Task]], None]] = None
        self.max_steps = 200000
        # trio semantics: every operation on a trio primitive is a checkpoint, also when it does not have
        # to wait (Event.wait on a set event, channel send/receive, lock acquire, stream send)
        self.checkpoints = False

    async def checkpoint(self) -> None:
        """Let every other ready task run once (no-op unless trio semantics are switched on)."""
        if not self.checkpoints:
            return

        def reg(task: Task) -> None:
            self.ready.append(task)

        await _Park(reg)

    # -- tasks
    def spawn(self, coro, name: str = "") -> Task:
        t = Task(self, coro, name)
        self.tasks.append(t)
        self.ready.append(t)
        return t

    def _step(self, t: Task) -> None:
        self.steps += 1
        try:
            if t.cancel_requested:
                t.cancel_requested = False
                park = t.coro.throw(Cancelled())
            else:
                park = t.coro.send(None)
        except StopIteration as e:
            t.done = True
            t.result = e.value
            return
        except Cancelled:
            t.done = True
            return
        except _asyncio.CancelledError as e:  # the coroutine ended with asyncio's own cancellation exception
            t.done = True
            t.result = e
            return
        except Exception as e:  # noqa: BLE001 - escaped the task: an observation
            t.done = True
            t.exc = e
            self.errors.append((t.name, e))
            return
        if not isinstance(park, _Park):
            t.done = True
            t.exc = RuntimeError(f"task awaited a foreign awaitable: {park!r}")
            self.errors.append((t.name, t.exc))
            return
        park.reg(t)

    def run(self) -> None:
        """Run until no task is ready (quiescence at the current virtual instant)."""
        while self.ready:
            if self.steps > self.max_steps:
                raise RuntimeError("scheduler step limit: a task is spinning")
            if self.order is not None and len(self.ready) > 1:
                self.order(self.ready)
            t = self.ready.popleft()
            if t.done:
                continue
            self._step(t)

    def advance(self, dt: int) -> None:
        """Advance virtual time, firing timers in order, running to quiescence after each."""
        end = self.now + dt
        self.run()
        while self.timers:
            self.timers.sort(key=lambda x: (x[0], x[1]))
            when, _, task = self.timers[0]
            if when > end:
                break
            self.timers.pop(0)
            self.now = when
            if not task.done and task.parked_on is self:
                task.parked_on = None
                self.ready.append(task)
            self.run()
        self.now = end

    def discard(self, task: Task) -> None:
        self.timers = [x for x in self.timers if x[2] is not task]

    async def sleep(self, dt) -> None:
        def reg(task: Task) -> None:
            self._seq += 1
            task.parked_on = self
            self.timers.append((self.now + dt, self._seq, task))

        await _Park(reg)

    def time(self) -> float:
        return self.now

    def alive(self) -> List[Task]:
        return [t for t in self.tasks if not t.done]

    # -- primitives bound to this scheduler
    def event_class(self):
        sched = self

        class Event:
            def __init__(self) -> None:
                self._set = False
                self._waiters: List[Task] = []

            async def clear(self) -> None:
                self._set = False

            async def set(self) -> None:
                self._set = True
                ws, self._waiters = self._waiters, []
                for w in ws:
                    if not w.done and w.parked_on is self:
                        w.parked_on = None
                        sched.ready.append(w)

            def is_set(self) -> bool:
                return self._set

            def discard(self, task: Task) -> None:
                if task in self._waiters:
                    self._waiters.remove(task)

            async def wait(self) -> None:
                if self._set:
                    await sched.checkpoint()
                    return

                def reg(task: Task) -> None:
                    task.parked_on = self
                    self._waiters.append(task)

                await _Park(reg)

        return Event


class Queue:
    def __init__(self, sched: Sched, maxsize: int) -> None:
        self.sched = sched
        self.maxsize = maxsize
        self.items: Deque[Any] = deque()
        self.getters: List[Task] = []
        self.putters: List[Task] = []

    def discard(self, task: Task) -> None:
        if task in self.getters:
            self.getters.remove(task)
        if task in self.putters:
            self.putters.remove(task)

    def _wake(self, lst: List[Task]) -> None:
        while lst:
            w = lst.pop(0)
            if not w.done and w.parked_on is self:
                w.parked_on = None
                self.sched.ready.append(w)
                return

    async def put(self, item) -> None:
        while self.maxsize > 0 and len(self.items) >= self.maxsize:

            def reg(task: Task) -> None:
                task.parked_on = self
                self.putters.append(task)

            await _Park(reg)
        self.items.append(item)
        self._wake(self.getters)
        await self.sched.checkpoint()

    async def get(self):
        while not self.items:

            def reg(task: Task) -> None:
                task.parked_on = self
                self.getters.append(task)

            await _Park(reg)
        item = self.items.popleft()
        self._wake(self.putters)
        await self.sched.checkpoint()
        return item


class WorkerContext:
    """Same surface as hypercorn.{asyncio,trio}.worker_context.WorkerContext."""

    def __init__(self, sched: Sched, max_requests: Optional[int] = None) -> None:
        self.sched = sched
        self.event_class = sched.event_class()
        self.max_requests = max_requests
        self.requests = 0
        self.terminate = self.event_class()
        self.terminated = self.event_class()

    async def mark_request(self) -> None:
        if self.max_requests is None:
            return
        self.requests += 1
        if self.requests > self.max_requests:
            await self.terminate.set()

    async def sleep(self, wait) -> None:
        await self.sched.sleep(wait)

    def time(self) -> float:
        return self.sched.time()


class TaskGroup:
    """spawn_app/spawn with the *real* `_handle` wrapper of a hypercorn task-group module."""

    def __init__(self, sched: Sched, handle: Callable[..., Awaitable[None]]) -> None:
        self.sched = sched
        self.handle = handle
        self.app_tasks: List[Task] = []

    async def spawn_app(self, app, config, scope, send):
        q = Queue(self.sched, config.max_app_queue_size)

        async def sync_spawn(fn, *a):
            return fn(*a)

        def call_soon(fn, *a):
            raise RuntimeError("call_soon is only meaningful from a worker thread")

        t = self.sched.spawn(self.handle(app, config, scope, q.get, send, sync_spawn, call_soon), "app")
        self.app_tasks.append(t)
        return q.put

    def spawn(self, func, *args) -> None:
        self.sched.spawn(func(*args), getattr(func, "__qualname__", "spawned"))


def drive(coro):
    """Run a coroutine on a private scheduler to quiescence; returns (task, sched)."""
    s = Sched()
    t = s.spawn(coro, "main")
    s.run()
    return t, s
