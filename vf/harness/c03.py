"""C03 exactly-once disconnect and access record; sends after close are no-ops."""
from __future__ import annotations

from hypercorn.protocol.events import Body, EndBody, Request, Response, StreamClosed
from hypercorn.protocol.http_stream import ASGIHTTPState
from hypercorn.protocol.ws_stream import ASGIWebsocketState
from hypercorn.typing import ConnectionState

from vf.rt import DOM, conc, done, enter, harness
from vf.stubs.b import Conn, GatedApp, Rig, make_config, open_gates, recording_app
from vf.stubs.clients import H2Client, WSClient, h1_parse, h1_request, split_h1_head, ws_h1_handshake

HOSTH = (b"Host", b"example.com")

# ------------------------------------------------------------------ one step, arbitrary pre-state


@harness(
    "C03",
    dom={"kind": (0, 1), "state": (0, 4), "closed": "bool", "started": "bool"},
    witnesses=[{"kind": 0, "state": 1, "closed": False, "started": True}, {"kind": 1, "state": 1, "closed": False, "started": True}],
    budget=40,
    bounds="HTTPStream/WSStream from every ASGI state x closed flag x application started or not: StreamClosed handled twice",
    encodes=["hypercorn/protocol/http_stream.py::HTTPStream.handle", "hypercorn/protocol/ws_stream.py::WSStream.handle"],
    stubs=["stream `send` = recorder; application queue = tier-B bounded queue"],
)
def stream_closed_twice(kind: int, state: int, closed: bool, started: bool) -> bool:
    """
    pre: DOM(stream_closed_twice, kind=kind, state=state, closed=closed, started=started)
    post: _
    """
    enter()
    kind = conc(kind, 0, 1)
    state = conc(state, 0, 4)
    closed = True if closed else False
    started = True if started else False
    if kind == 0:
        states = [ASGIHTTPState.REQUEST, ASGIHTTPState.RESPONSE, ASGIHTTPState.TRAILERS, ASGIHTTPState.CLOSED]
        if state > 3:
            return done(True, skipped="HTTP has four states")
        rig = Rig("http", config=make_config(server_names=[] if started else ["other.example"]))
        rig.set_app(recording_app(rig))
        rig.request("GET", b"/", "1.1")
    else:
        states = [ASGIWebsocketState.HANDSHAKE, ASGIWebsocketState.CONNECTED, ASGIWebsocketState.RESPONSE, ASGIWebsocketState.CLOSED, ASGIWebsocketState.HTTPCLOSED]
        from vf.harness.c12 import _WS_HEADERS

        rig = Rig("ws", config=make_config(server_names=[] if started else ["other.example"]))
        rig.set_app(recording_app(rig))
        rig.request("GET", b"/", "1.1", list(_WS_HEADERS))
    st = states[state]
    if not started:
        # a request refused by the stream itself (unknown server name): no application exists
        ok = rig.stream.closed and rig.scope is None
        rig.handle(StreamClosed(stream_id=1))
        rig.handle(StreamClosed(stream_id=1))
        ok = ok and rig.app_msgs == [] and not rig.sched.errors
        return done(ok, kind=kind, started=False)
    rig.stream.state = st
    rig.stream.closed = closed
    base = len(rig.app_msgs)
    rig.handle(StreamClosed(stream_id=1))
    rig.handle(StreamClosed(stream_id=1))
    new = [m for m in rig.app_msgs[base:] if m["type"].endswith("disconnect")]
    ok = not rig.sched.errors
    ok = ok and len(new) == (0 if closed else 1)
    ok = ok and rig.stream.closed
    return done(ok, kind=kind, state=str(st), closed=closed)


# ------------------------------------------------------------------ HTTP/1 closing causes

START = ("send", {"type": "http.response.start", "status": 200, "headers": []})
B1 = ("send", {"type": "http.response.body", "body": b"abc", "more_body": True})
B2 = ("send", {"type": "http.response.body", "body": b"def", "more_body": True})
B3 = ("send", {"type": "http.response.body", "body": b"", "more_body": False})
H1_STEPS = ["recv_body", START, B1, B2, B3, "recv_until_disconnect", "recv"]
CAUSES = ["client EOF", "client reset", "write failure", "none (Connection: close request)", "none (keep-alive, then EOF)"]


def _judge(inst, log_access: int, requests: int, allow_unfinished_body: bool = False) -> str:
    msgs = inst.received
    discs = [i for i, m in enumerate(msgs) if m["type"].endswith("disconnect")]
    if len(discs) != 1:
        return f"{len(discs)} disconnect messages: {[m['type'] for m in msgs]}"
    if discs[0] != len(msgs) - 1:
        return f"message delivered after the disconnect: {[m['type'] for m in msgs]}"
    if inst.send_errors:
        return f"send() raised into the application: {inst.send_errors!r}"
    if log_access != requests:
        return f"{log_access} access records for {requests} request(s)"
    return ""


@harness(
    "C03",
    dom={"cause": (0, 4), "p": (0, 6), "flavour": (0, 1), "j": (0, 3), "v": (0, 2)},
    split={"cause": "each"},
    witnesses=[{"cause": 0, "p": 2, "flavour": 0, "j": 0, "v": 0}, {"cause": 2, "p": 0, "flavour": 1, "j": 1, "v": 0}, {"cause": 3, "p": 0, "flavour": 0, "j": 0, "v": 0},
               {"cause": 0, "p": 1, "flavour": 0, "j": 0, "v": 1}, {"cause": 1, "p": 1, "flavour": 1, "j": 0, "v": 2}],
    budget=100,
    per_path=60,
    bounds="one HTTP/1.1 request whose application runs 7 steps (read body, start, 3 chunks, wait for disconnect, receive again); closing cause in {client EOF, reset, failure of write #j (j<=3), Connection: close, keep-alive then EOF} placed before application step p (0..6); both worker flavours of _handle/Closed handling; two further application styles that never start a response: wait for the disconnect and then return / raise",
    encodes=["hypercorn/protocol/http_stream.py::HTTPStream.handle", "hypercorn/protocol/http_stream.py::HTTPStream.app_send", "hypercorn/protocol/h11.py::H11Protocol.handle",
             "hypercorn/protocol/h11.py::H11Protocol._close_stream", "hypercorn/protocol/h11.py::H11Protocol._send_h11_event"],
    stubs=["tier B runtime; transport faults injected at the protocol_send boundary"],
)
def h1_closing(cause: int, p: int, flavour: int, j: int, v: int) -> bool:
    """
    pre: DOM(h1_closing, cause=cause, p=p, flavour=flavour, j=j, v=v)
    post: _
    """
    enter()
    cause = conc(cause, 0, 4)
    p = conc(p, 0, 6)
    j = conc(j, 0, 3)
    v = conc(v, 0, 2)
    flavour = "asyncio" if conc(flavour, 0, 1) == 0 else "trio"
    if v:
        return _h1_closing_silent_app(cause, p, flavour, v)
    hdrs = [HOSTH] + ([(b"Connection", b"close")] if cause == 3 else [])
    data = h1_request("POST", b"/r", hdrs, [b"hello"], "content-length")
    conn = Conn(None, make_config(), flavour=flavour)
    app = GatedApp(conn.ctx, lambda scope, idx: list(H1_STEPS), gated=True)
    conn.proto.app = app
    conn.proto.protocol.app = app
    if cause == 2:
        conn.write_fail_at = j
    conn.feed(data)
    open_gates(conn, app, p)
    if cause == 0:
        conn.eof()
    elif cause == 1:
        conn.reset()
    open_gates(conn, app, len(H1_STEPS))
    if cause == 4 or (cause in (0, 1) and not conn.server_closed):
        conn.eof()
    why = ""
    if len(app.instances) != 1:
        why = f"{len(app.instances)} application instances"
    else:
        inst = app.instances[0]
        why = _judge(inst, conn.log.count("access"), 1)
        if not why and inst.step < 5:
            why = f"application stuck at step {inst.step}"
    if not why and conn.sched.errors:
        why = "exception escaped a task: %r" % (conn.sched.errors[0],)
    return done(why == "", cause=CAUSES[cause], p=p, flavour=flavour, j=j, why=why)


def _h1_closing_silent_app(cause: int, p: int, flavour: str, v: int) -> bool:
    """The client goes away before any response was started; the application notices and ends without responding."""
    if cause not in (0, 1) or p > 2:
        return done(True, skipped="silent application: client EOF / reset before steps 0..2 only")
    steps = ["recv_body", "recv_until_disconnect", "return" if v == 1 else "raise"]
    conn = Conn(None, make_config(), flavour=flavour)
    app = GatedApp(conn.ctx, lambda scope, idx: list(steps), gated=True)
    conn.proto.app = app
    conn.proto.protocol.app = app
    conn.feed(h1_request("POST", b"/r", [HOSTH], [b"hello"], "content-length"))
    open_gates(conn, app, p)
    if cause == 0:
        conn.eof()
    else:
        conn.reset()
    written_at_loss = len(conn.writes)
    open_gates(conn, app, len(steps) + 1)
    why = ""
    if len(app.instances) != 1:
        why = f"{len(app.instances)} application instances"
    else:
        inst = app.instances[0]
        why = _judge(inst, conn.log.count("access"), 1)
        if not why and not (inst.finished or inst.crashed):
            why = f"application stuck at step {inst.step}"
    if not why and cause == 1 and len(conn.writes) > written_at_loss:
        why = f"{len(conn.writes) - written_at_loss} write(s) after the connection was reset"
    if not why and [e for e in conn.sched.errors if not (v == 2 and False)]:
        why = "exception escaped a task: %r" % (conn.sched.errors[0],)
    return done(why == "", cause=CAUSES[cause], p=p, flavour=flavour, app=["", "returns without responding", "raises without responding"][v], why=why)


# ------------------------------------------------------------------ HTTP/2 per-stream closing

H2_STEPS = ["recv_body", START, B1, B2, B3, "recv_until_disconnect", "recv"]
H2_CAUSES = ["RST_STREAM on stream 1", "client EOF", "write failure", "none"]


@harness(
    "C03",
    dom={"cause": (0, 3), "p": (0, 6), "flavour": (0, 1), "j": (0, 4)},
    split={"cause": "each"},
    witnesses=[{"cause": 0, "p": 3, "flavour": 0, "j": 0}, {"cause": 3, "p": 0, "flavour": 1, "j": 0}],
    budget=100,
    per_path=60,
    bounds="HTTP/2 connection with two streams, each application running the 7 steps; cause in {RST_STREAM on stream 1, client EOF, failure of write #j, none} placed before step p of both applications",
    encodes=["hypercorn/protocol/h2.py::H2Protocol.handle", "hypercorn/protocol/h2.py::H2Protocol._handle_events", "hypercorn/protocol/h2.py::H2Protocol._close_stream",
             "hypercorn/protocol/h2.py::H2Protocol.stream_send", "hypercorn/protocol/http_stream.py::HTTPStream.handle"],
    stubs=["tier B runtime", "independent h2 client"],
)
def h2_closing(cause: int, p: int, flavour: int, j: int) -> bool:
    """
    pre: DOM(h2_closing, cause=cause, p=p, flavour=flavour, j=j)
    post: _
    """
    enter()
    cause = conc(cause, 0, 3)
    p = conc(p, 0, 6)
    j = conc(j, 0, 4)
    flavour = "asyncio" if conc(flavour, 0, 1) == 0 else "trio"
    conn = Conn(None, make_config(), alpn="h2", flavour=flavour)
    app = GatedApp(conn.ctx, lambda scope, idx: list(H2_STEPS), gated=True)
    conn.proto.app = app
    conn.proto.protocol.app = app
    client = H2Client()
    client.request(1, b"POST", b"/one", end_stream=False)
    client.data(1, b"hello", end_stream=True)
    client.request(3, b"POST", b"/three", end_stream=False)
    client.data(3, b"hello", end_stream=True)
    if cause == 2:
        conn.write_fail_at = j + 1  # write 0 is the server's SETTINGS
    conn.feed(client.take())
    open_gates(conn, app, p)
    client.feed(conn.take())
    if cause == 0:
        if client.streams[1].ended:
            return done(True, skipped="stream 1 already complete: nothing to reset")
        client.reset(1)
        conn.feed(client.take())
    elif cause == 1:
        conn.eof()
    open_gates(conn, app, len(H2_STEPS))
    client.feed(conn.take())
    conn.feed(client.take())
    if not conn.server_closed:
        conn.eof()
    why = ""
    if len(app.instances) != 2:
        why = f"{len(app.instances)} application instances"
    else:
        for k, inst in enumerate(app.instances):
            w = _judge(inst, conn.log.count("access"), 2)
            if w and not why:
                why = f"stream {2 * k + 1}: {w}"
            if not why and inst.step < 5:
                why = f"stream {2 * k + 1}: application stuck at step {inst.step}"
        if not why and cause in (0, 3):
            s3 = client.streams[3]
            if s3.status != 200 or s3.data != b"abcdef" or s3.ended != 1:
                why = f"sibling stream 3 did not complete: {s3!r}"
    if not why and conn.sched.errors:
        why = "exception escaped a task: %r" % (conn.sched.errors[0],)
    return done(why == "", cause=H2_CAUSES[cause], p=p, flavour=flavour, j=j, why=why)


# ------------------------------------------------------------------ WebSocket closing

WS_STEPS = ["recv", ("send", {"type": "websocket.accept"}), ("send", {"type": "websocket.send", "text": "one"}),
            ("send", {"type": "websocket.send", "bytes": b"two"}), "recv_until_disconnect", ("send", {"type": "websocket.send", "text": "late"}), "recv"]
WS_CAUSES = ["client close frame", "client EOF", "client reset", "write failure", "application closes", "oversized message and two more messages in the same read",
             "client close frame and EOF in the same read after two messages"]


@harness(
    "C03",
    dom={"cause": (0, 6), "p": (1, 5), "flavour": (0, 1), "j": (0, 3)},
    split={"cause": "each"},
    witnesses=[{"cause": 0, "p": 3, "flavour": 0, "j": 0}, {"cause": 1, "p": 2, "flavour": 1, "j": 0}, {"cause": 5, "p": 3, "flavour": 0, "j": 0}],
    budget=100,
    per_path=60,
    bounds="WebSocket over HTTP/1.1 whose application runs 7 steps (connect, accept, 2 sends, wait for disconnect, send after the disconnect, receive again); cause in {client close frame, EOF, reset, failure of write #j, application close, a message over websocket_max_message_size followed by two more messages in one read, two messages + close frame in one read} placed before step p (1..5)",
    encodes=["hypercorn/protocol/ws_stream.py::WSStream.handle", "hypercorn/protocol/ws_stream.py::WSStream.app_send", "hypercorn/protocol/ws_stream.py::WSStream._handle_events",
             "hypercorn/protocol/h11.py::H11Protocol.handle", "hypercorn/protocol/h11.py::H11Protocol._maybe_recycle"],
    stubs=["tier B runtime", "independent wsproto client"],
)
def ws_closing(cause: int, p: int, flavour: int, j: int) -> bool:
    """
    pre: DOM(ws_closing, cause=cause, p=p, flavour=flavour, j=j)
    post: _
    """
    enter()
    cause = conc(cause, 0, 6)
    p = conc(p, 1, 5)
    j = conc(j, 0, 3)
    flavour = "asyncio" if conc(flavour, 0, 1) == 0 else "trio"
    steps = list(WS_STEPS)
    if cause == 4:
        steps = steps[:p] + [("send", {"type": "websocket.close", "code": 1000})] + steps[4:]
        steps = [s for s in steps if not (isinstance(s, tuple) and s[1].get("text") == "late")]
    conn = Conn(None, make_config(websocket_max_message_size=10), flavour=flavour)
    app = GatedApp(conn.ctx, lambda scope, idx: steps, gated=True)
    conn.proto.app = app
    conn.proto.protocol.app = app
    if cause == 3:
        conn.write_fail_at = j
    conn.feed(ws_h1_handshake())
    ws = WSClient()
    open_gates(conn, app, p)
    if cause in (5, 6) and p < 2:
        return done(True, skipped="frames before the handshake is accepted: known finding C03-ws-data-before-accept-no-disconnect")
    if cause == 5:
        conn.feed(ws.send_text("x" * 11) + ws.send_text("after") + ws.send_bytes(b"more"))
    elif cause == 6:
        conn.feed(ws.send_text("one") + ws.send_bytes(b"two") + ws.send_close(1000))
    if cause == 0:
        conn.feed(ws.send_close(1000))
    elif cause == 1:
        conn.eof()
    elif cause == 2:
        conn.reset()
    open_gates(conn, app, len(steps) + 1)
    if cause == 4 and p >= 2:
        conn.feed(ws.send_close(1000))  # the client's closing reply (only after an accepted handshake)
    if not conn.server_closed:
        conn.eof()
    why = ""
    if len(app.instances) != 1:
        why = f"{len(app.instances)} application instances"
    else:
        inst = app.instances[0]
        accepted = "websocket.accept" in inst.sent_ok
        want_access = 1
        why = _judge(inst, conn.log.count("access"), want_access)
    if not why and conn.sched.errors:
        why = "exception escaped a task: %r" % (conn.sched.errors[0],)
    return done(why == "", cause=WS_CAUSES[cause], p=p, flavour=flavour, j=j, why=why)


# ------------------------------------------------------------------ the peer goes away abortively while the application waits (real workers)

LOSS = ["connection reset", "read_timeout expires", "client EOF"]


@harness(
    "C03",
    dom={"flavour": (0, 1), "proto": (0, 2), "loss": (0, 2)},
    split={"flavour": "each", "proto": "each"},
    witnesses=[{"flavour": 0, "proto": 0, "loss": 0}, {"flavour": 1, "proto": 0, "loss": 0}, {"flavour": 1, "proto": 2, "loss": 1}],
    budget=120,
    per_path=240,
    bounds="each worker's real TCPServer with an application parked in receive() (HTTP/1.1 long poll, HTTP/2 stream, accepted WebSocket) when the client is lost by {reset, read_timeout=1 expiring, EOF}: exactly one final disconnect message, one access record, handler finished",
    encodes=["hypercorn/asyncio/tcp_server.py::TCPServer._read_data", "hypercorn/trio/tcp_server.py::TCPServer._read_data", "hypercorn/protocol/h11.py::H11Protocol.handle", "hypercorn/protocol/h2.py::H2Protocol.handle",
             "hypercorn/protocol/http_stream.py::HTTPStream.handle", "hypercorn/protocol/ws_stream.py::WSStream.handle"],
    stubs=["tier C runtimes (virtual asyncio loop / trio MockClock)"],
)
def real_worker_peer_loss(flavour: int, proto: int, loss: int) -> bool:
    """
    pre: DOM(real_worker_peer_loss, flavour=flavour, proto=proto, loss=loss)
    post: _
    """
    from vf.session import run_session
    from vf.stubs.clients import H2Client

    enter()
    flavour = "asyncio" if conc(flavour, 0, 1) == 0 else "trio"
    proto = conc(proto, 0, 2)
    loss = conc(loss, 0, 2)
    seen = []

    def factory(env):
        async def app(scope, receive, send, sync_spawn=None, call_soon=None):
            if scope["type"] == "websocket":
                seen.append((await receive())["type"])
                await send({"type": "websocket.accept"})
            while True:
                m = await receive()
                seen.append(m["type"])
                if m["type"].endswith("disconnect"):
                    break
            try:
                await send({"type": "websocket.send", "text": "late"} if scope["type"] == "websocket" else {"type": "http.response.start", "status": 200, "headers": []})
            except Exception as e:  # noqa: BLE001
                seen.append("send raised %r" % (e,))

        return app

    if proto == 0:
        data, alpn = h1_request("POST", b"/poll", [HOSTH, (b"Content-Length", b"10")]) + b"abc", None
    elif proto == 1:
        c = H2Client()
        c.request(1, b"POST", b"/poll", end_stream=False)
        data, alpn = c.take(), "h2"
    else:
        data, alpn = ws_h1_handshake(), None
    cfg = make_config(keep_alive_timeout=30, read_timeout=1) if loss == 1 else make_config(keep_alive_timeout=30)
    acts = [("feed", data), ("sleep", 0.5)]
    if loss == 0:
        acts.append(("reset",))
    elif loss == 2:
        acts.append(("eof",))
    acts.append(("sleep", 3.0))
    obs = run_session(flavour, factory, cfg, acts, alpn=alpn)
    discs = [m for m in seen if m.endswith("disconnect")]
    why = ""
    if obs["handler_error"] is not None:
        why = "connection handler raised %r" % (obs["handler_error"],)
    elif len(discs) != 1:
        why = f"{len(discs)} disconnect messages after '{LOSS[loss]}': {seen!r}"
    elif [m for m in seen if m.startswith("send raised")]:
        why = f"a send after the disconnect raised: {seen!r}"
    elif cfg._log.count("access") != 1:
        why = f"{cfg._log.count('access')} access records for one request"
    elif not obs["handler_done"]:
        why = "the connection handler is still running 3 s after the client was lost"
    return done(why == "", flavour=flavour, protocol=["HTTP/1.1", "HTTP/2", "WebSocket"][proto], loss=LOSS[loss], why=why)
