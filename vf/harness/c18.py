"""C18 configured limits and worker recycling are enforced against any client."""
from __future__ import annotations

import hypercorn.asyncio.worker_context as awc
import hypercorn.trio.worker_context as twc

from vf.rt import DOM, MODE, conc, done, enter, harness, run_coro
from vf.stubs.b import Conn, GatedApp, make_config
from vf.stubs.clients import H2Client, h1_parse, h1_request

QUICK = MODE["tier"] != "thorough"


@harness(
    "C18",
    dom={"flavour": (0, 1), "requests": (None, None), "maxr": (None, None), "none": "bool", "calls": (1, 3)},
    split={"flavour": "each"},
    witnesses=[{"flavour": 0, "requests": 4, "maxr": 5, "none": False, "calls": 2}, {"flavour": 1, "requests": 0, "maxr": 0, "none": True, "calls": 3}],
    budget=60,
    bounds="WorkerContext.mark_request (asyncio and trio flavours) from an arbitrary pre-state: any request counter, any max_requests (or None), 1..3 consecutive calls",
    encodes=["hypercorn/asyncio/worker_context.py::WorkerContext.mark_request", "hypercorn/trio/worker_context.py::WorkerContext.mark_request"],
    stubs=["the real EventWrapper of each worker is used (asyncio.Event / trio.Event, no loop needed to set them)"],
)
def mark_request_step(flavour: int, requests: int, maxr: int, none: bool, calls: int) -> bool:
    """
    pre: DOM(mark_request_step, flavour=flavour, requests=requests, maxr=maxr, none=none, calls=calls)
    post: _
    """
    enter()
    flavour = conc(flavour, 0, 1)
    calls = conc(calls, 1, 3)
    none = True if none else False
    mod = awc if flavour == 0 else twc
    ctx = mod.WorkerContext(None if none else maxr)
    ctx.requests = requests
    ok = True
    for i in range(calls):
        run_coro(ctx.mark_request())
        if none:
            ok = ok and not ctx.terminate.is_set() and ctx.requests == requests
        else:
            ok = ok and ctx.requests == requests + i + 1
            should = requests + i + 1 > maxr
            # once asked to terminate the worker stays asked
            ok = ok and (ctx.terminate.is_set() if should else (not ctx.terminate.is_set() or any(requests + j + 1 > maxr for j in range(i))))
    ok = ok and not ctx.terminated.is_set()
    return done(ok, flavour=flavour, requests=requests, maxr=maxr, none=none, calls=calls)


class _Counter:
    def __init__(self) -> None:
        self.scopes = []

    async def __call__(self, scope, receive, send, sync_spawn=None, call_soon=None):
        self.scopes.append(scope)
        while True:
            m = await receive()
            if m["type"] != "http.request" or not m.get("more_body"):
                break
        await send({"type": "http.response.start", "status": 200, "headers": [(b"content-length", b"2")]})
        await send({"type": "http.response.body", "body": b"ok", "more_body": False})


LIMITS = [16, 64, 200]


@harness(
    "C18",
    dom={"li": (0, 2), "delta": (-2, 3), "big": "bool", "s": (0, 50), "body": "bool"},
    split={"li": "each", "delta": "each"},
    witnesses=[{"li": 1, "delta": -1, "big": False, "s": 10, "body": False}, {"li": 1, "delta": 1, "big": False, "s": 0, "body": True}],
    budget=100,
    per_path=60,
    bounds="h11_max_incomplete_size in {16,64,200} x request head length limit-2..limit+3 or 2*limit x one two-way split (50 positions across the head) x request with/without a body",
    encodes=["hypercorn/protocol/h11.py::H11Protocol.__init__", "hypercorn/protocol/h11.py::H11Protocol._handle_events", "hypercorn/protocol/h11.py::H11Protocol._send_error_response"],
    stubs=["tier B runtime", "independent h11 client"],
)
def h11_incomplete_limit(li: int, delta: int, big: bool, s: int, body: bool) -> bool:
    """
    pre: DOM(h11_incomplete_limit, li=li, delta=delta, big=big, s=s, body=body)
    post: _
    """
    enter()
    limit = LIMITS[conc(li, 0, 2)]
    delta = conc(delta, -2, 3)
    big = True if big else False
    body = True if body else False
    target_len = 2 * limit if big else limit + delta
    base = h1_request("POST" if body else "GET", b"/", [(b"Host", b"h")], [b"abc"] if body else [], "content-length" if body else "none")
    head_len = base.find(b"\r\n\r\n") + 4
    pad = target_len - head_len
    if pad < 0:
        return done(True, skipped="limit smaller than the minimal request head")
    path = b"/" + b"p" * pad
    data = h1_request("POST" if body else "GET", path, [(b"Host", b"h")], [b"abc"] if body else [], "content-length" if body else "none")
    head_len = data.find(b"\r\n\r\n") + 4
    cut = (conc(s, 0, 50) * head_len) // 50
    app = _Counter()
    conn = Conn(app, make_config(h11_max_incomplete_size=limit))
    if cut:
        conn.feed(data[:cut])
    conn.feed(data[cut:])
    resps, err, closed, _ = h1_parse(conn.out.peek(), [("GET", path)])
    why = ""
    # h11 rejects a head that is still incomplete once more than `limit` bytes are buffered
    too_long = 0 < cut < head_len and cut > limit
    if too_long:
        if app.scopes:
            why = "application reached although the head exceeds h11_max_incomplete_size"
        elif not resps or resps[0].status is None or not (400 <= resps[0].status < 500) or not resps[0].complete:
            why = f"expected a 4xx, got {resps!r} {err}"
        elif not conn.server_closed:
            why = "connection left open after the rejection"
    else:
        if len(app.scopes) != 1 or not resps or resps[0].status != 200:
            why = f"request within the limit was not served: {resps!r} {err}"
    if not why and conn.sched.errors:
        why = "exception escaped a task: %r" % (conn.sched.errors[0],)
    return done(why == "", limit=limit, head_len=head_len, cut=cut, body=body, why=why)


@harness(
    "C18",
    dom={"maxs": (1, 2), "opened": (1, 4), "hold": "bool"},
    witnesses=[{"maxs": 1, "opened": 2, "hold": True}, {"maxs": 2, "opened": 2, "hold": True}],
    budget=60,
    per_path=60,
    bounds="h2_max_concurrent_streams in {1,2} x 1..4 streams opened by the client while the earlier ones are still running (or already finished)",
    encodes=["hypercorn/protocol/h2.py::H2Protocol.__init__", "hypercorn/protocol/h2.py::H2Protocol._handle_events"],
    stubs=["tier B runtime", "independent h2 client (it does not police the server's limit itself: frames are written raw when over the limit)"],
)
def h2_concurrent_streams(maxs: int, opened: int, hold: bool) -> bool:
    """
    pre: DOM(h2_concurrent_streams, maxs=maxs, opened=opened, hold=hold)
    post: _
    """
    enter()
    maxs = conc(maxs, 1, 2)
    opened = conc(opened, 1, 4)
    hold = True if hold else False
    steps = ["recv", ("send", {"type": "http.response.start", "status": 200, "headers": []}), ("send", {"type": "http.response.body", "body": b"ok", "more_body": False})]
    conn = Conn(None, make_config(h2_max_concurrent_streams=maxs), alpn="h2")
    app = GatedApp(conn.ctx, lambda scope, idx: steps, gated=hold)
    conn.proto.app = app
    conn.proto.protocol.app = app
    c = H2Client()
    conn.feed(c.take())
    c.feed(conn.take())
    conn.feed(c.take())
    from vf.rt import NoTracing

    with NoTracing():
        # a client that ignores the advertised limit
        import collections

        import h2.settings as _hs

        c.conn.remote_settings._settings[_hs.SettingCodes.MAX_CONCURRENT_STREAMS] = collections.deque([100])
    for i in range(opened):
        if c.terminated is not None:
            break
        c.request(2 * i + 1, b"GET", b"/s", end_stream=True)
        conn.feed(c.take())
        c.feed(conn.take())
        conn.feed(c.take())
    started = len(app.instances)
    why = ""
    allowed = min(opened, maxs) if hold else opened
    if started > allowed:
        why = f"{started} applications running concurrently with h2_max_concurrent_streams={maxs}"
    elif hold and opened > maxs:
        refused = [sid for sid, s in c.streams.items() if s.reset is not None]
        if not refused and c.terminated is None:
            why = f"stream beyond the limit neither refused nor connection terminated: {c.streams!r}"
    if not why and conn.sched.errors:
        why = "exception escaped a task: %r" % (conn.sched.errors[0],)
    return done(why == "", maxs=maxs, opened=opened, hold=hold, why=why)


@harness(
    "C18",
    dom={"kmax": (0, 3), "sent": (1, 5)},
    witnesses=[{"kmax": 1, "sent": 3}, {"kmax": 3, "sent": 2}],
    budget=60,
    per_path=60,
    bounds="HTTP/2 keep_alive_max_requests in {0,1,2,3} x 1..5 sequential requests on one connection",
    encodes=["hypercorn/protocol/h2.py::H2Protocol._handle_events", "hypercorn/protocol/h2.py::H2Protocol._create_stream"],
    stubs=["tier B runtime", "independent h2 client"],
)
def h2_keep_alive_max(kmax: int, sent: int) -> bool:
    """
    pre: DOM(h2_keep_alive_max, kmax=kmax, sent=sent)
    post: _
    """
    enter()
    kmax = conc(kmax, 0, 3)
    sent = conc(sent, 1, 5)
    app = _Counter()
    conn = Conn(app, make_config(keep_alive_max_requests=kmax), alpn="h2")
    c = H2Client()
    served = 0
    told = None
    for i in range(sent):
        if c.terminated is not None:
            break
        c.request(2 * i + 1, b"GET", b"/s", end_stream=True)
        conn.feed(c.take())
        c.feed(conn.take())
        conn.feed(c.take())
        c.feed(conn.take())
        st = c.streams[2 * i + 1]
        if st.status == 200 and st.ended:
            served += 1
        if c.terminated is not None and told is None:
            told = i + 1
    why = ""
    # at most kmax requests, one more on HTTP/2, before the client is told to go away
    if served > kmax + 1:
        why = f"{served} requests served with keep_alive_max_requests={kmax}"
    elif sent > kmax + 1 and told is None:
        why = f"client never told to stop after {sent} requests (limit {kmax})"
    elif told is not None and told < min(sent, kmax + 1):
        why = f"client told to go away after {told} requests, limit is {kmax} (+1)"
    elif served < min(sent, kmax + 1):
        why = f"only {served} of the first {min(sent, kmax + 1)} requests were served"
    if not why and conn.sched.errors:
        why = "exception escaped a task: %r" % (conn.sched.errors[0],)
    return done(why == "", kmax=kmax, sent=sent, served=served, told=told, why=why)


@harness(
    "C18",
    dom={"li": (0, 2), "size": (0, 3)},
    witnesses=[{"li": 0, "size": 0}, {"li": 0, "size": 3}],
    budget=60,
    per_path=60,
    bounds="h2_max_header_list_size in {100, 1000, 65536} x request header block of about {50, 90%, 150%, 400%} of the limit",
    encodes=["hypercorn/protocol/h2.py::H2Protocol.__init__", "hypercorn/protocol/h2.py::H2Protocol.handle"],
    stubs=["tier B runtime", "independent h2 client that ignores the advertised limit"],
)
def h2_header_list_limit(li: int, size: int) -> bool:
    """
    pre: DOM(h2_header_list_limit, li=li, size=size)
    post: _
    """
    enter()
    limit = [100, 1000, 65536][conc(li, 0, 2)]
    frac = [0, 0.9, 1.5, 4.0][conc(size, 0, 3)]
    n = 10 if frac == 0 else int(limit * frac)
    app = _Counter()
    conn = Conn(app, make_config(h2_max_header_list_size=limit), alpn="h2")
    c = H2Client()
    conn.feed(c.take())
    c.feed(conn.take())
    conn.feed(c.take())
    # RFC 7541 size of a header list: name + value + 32 per entry
    base = sum(len(a) + len(b) + 32 for a, b in [(b":method", b"GET"), (b":scheme", b"http"), (b":authority", b"example.com"), (b":path", b"/s")])
    pad = max(0, n - base - 32 - 3)
    c.request(1, b"GET", b"/s", [(b"x-p", b"v" * pad)], end_stream=True)
    total = base + 32 + 3 + pad
    conn.feed(c.take())
    c.feed(conn.take())
    conn.feed(c.take())
    c.feed(conn.take())
    st = c.streams[1]
    why = ""
    if total > limit:
        if app.scopes:
            why = f"header list of {total} bytes reached the application (limit {limit})"
        elif st.reset is None and c.terminated is None and not conn.server_closed:
            why = "oversized header block neither refused nor connection terminated"
    else:
        if st.status != 200:
            why = f"header list of {total} bytes within the limit {limit} was not served: {st!r} terminated={c.terminated}"
    if not why and conn.sched.errors:
        why = "exception escaped a task: %r" % (conn.sched.errors[0],)
    return done(why == "", limit=limit, total=total, why=why)


# ------------------------------------------------------------------ HTTP/1 keep_alive_max_requests (shares the pipeline rig of C06)


@harness(
    "C18",
    dom={"kmax": (1, 2), "extra": (0, 1), "ai": (0, 4), "seg": (0, 2), "cut": (0, 5), "body": "bool", "flavour": (0, 1)},
    split={"ai": "each", "flavour": "each"},
    witnesses=[{"kmax": 1, "extra": 1, "ai": 3, "seg": 1, "cut": 4, "body": True, "flavour": 0}, {"kmax": 2, "extra": 0, "ai": 0, "seg": 0, "cut": 0, "body": False, "flavour": 0},
               {"kmax": 1, "extra": 1, "ai": 1, "seg": 0, "cut": 0, "body": False, "flavour": 1}],
    budget=120,
    per_path=120,
    bounds="HTTP/1.1 connections carrying exactly keep_alive_max_requests (1 or 2) requests, or one more, with/without bodies, x 5 application styles x segmentation {one read, one cut, byte-wise} x worker flavour: the limit-th response announces close, nothing beyond it is served",
    encodes=["hypercorn/protocol/h11.py::H11Protocol.stream_send", "hypercorn/protocol/h11.py::H11Protocol._create_stream", "hypercorn/protocol/h11.py::H11Protocol._maybe_recycle"],
    stubs=["tier B runtime (the pipeline rig and reference of vf.harness.c06.h1_pipeline)"],
)
def h1_keep_alive_max(kmax: int, extra: int, ai: int, seg: int, cut: int, body: bool, flavour: int) -> bool:
    """
    pre: DOM(h1_keep_alive_max, kmax=kmax, extra=extra, ai=ai, seg=seg, cut=cut, body=body, flavour=flavour)
    post: _
    """
    enter()
    from vf.harness import c06

    kmax = conc(kmax, 1, 2)
    extra = conc(extra, 0, 1)
    ai = conc(ai, 0, 4)
    flavour = conc(flavour, 0, 1)
    seg = conc(seg, 0, 2)
    cut = conc(cut, 0, 5)
    body = True if body else False
    n = kmax + extra
    r = 1 if body else 0  # POST with a body / GET
    kidx = {1: 1, 2: 2}[kmax]  # index into c06's table [3, 1, 2, 1000]
    if c06.QUICK and n == 3 and seg != 0:
        seg = 0
    ok, vec = c06.pipeline(n, r, r, r, seg, min(cut, c06.CUTMAX), ai, kidx, "trio" if flavour else "asyncio")
    return done(ok, kmax=kmax, requests=n, app=c06.APPS[ai], seg=seg, cut=cut, body=body, flavour=["asyncio", "trio"][flavour], why=vec.get("why", ""))


# ------------------------------------------------------------------ worker recycling with jitter (asyncio worker_serve)


@harness(
    "C18",
    dom={"m": (0, 3), "j": (0, 2), "r": (0, 2), "none": "bool", "rk": (0, 3), "flavour": (0, 1), "trig": (0, 1)},
    split={"rk": "each", "m": "each", "flavour": "each"},
    witnesses=[{"m": 2, "j": 2, "r": 1, "none": False, "rk": 0, "flavour": 0, "trig": 0}, {"m": 1, "j": 0, "r": 0, "none": True, "rk": 2, "flavour": 0, "trig": 0},
               {"m": 2, "j": 2, "r": 1, "none": False, "rk": 2, "flavour": 1, "trig": 0}, {"m": 0, "j": 1, "r": 1, "none": False, "rk": 3, "flavour": 1, "trig": 1}],
    budget=150,
    per_path=240,
    bounds="asyncio and trio worker_serve with max_requests in {None, 0..3}, max_requests_jitter 0..2 and every result r in [0, jitter] of the random draw: the worker begins its graceful exit exactly when it has taken on more than max_requests + r requests, and never when max_requests is None; the requests are HTTP/1.1 GETs, cleartext prior-knowledge HTTP/2 requests, h2c-upgraded requests or WebSocket handshakes, one per connection; the trio worker also without any external shutdown trigger",
    encodes=["hypercorn/asyncio/run.py::worker_serve", "hypercorn/asyncio/worker_context.py::WorkerContext.mark_request", "hypercorn/trio/run.py::worker_serve", "hypercorn/trio/worker_context.py::WorkerContext.mark_request"],
    stubs=["hypercorn.{asyncio,trio}.run.randint replaced by a stub that records its arguments and returns the solver-chosen r", "tier C worker level (trio: un-traced thread, see vf/stubs/twsess.py)"],
)
def worker_max_requests_jitter(m: int, j: int, r: int, none: bool, rk: int, flavour: int, trig: int) -> bool:
    """
    pre: DOM(worker_max_requests_jitter, m=m, j=j, r=r, none=none, rk=rk, flavour=flavour, trig=trig)
    post: _
    """
    enter()
    from vf.harness.c14 import _session_class, make_app

    flavour = conc(flavour, 0, 1)
    trig = conc(trig, 0, 1)
    if trig == 1 and flavour == 0:
        return done(True, skipped="asyncio worker_serve without a shutdown trigger installs process-wide signal handlers: only the trio worker is run that way")
    m = conc(m, 0, 3)
    j = conc(j, 0, 2)
    r = conc(r, 0, 2)
    rk = conc(rk, 0, 3)
    none = True if none else False
    LIMIT = 8
    if r > j:
        return done(True, skipped="randint(0, j) cannot return more than j")
    cfg = make_config(startup_timeout=5, shutdown_timeout=4, graceful_timeout=3, keep_alive_timeout=50,
                      max_requests=None if none else m, max_requests_jitter=j)
    s = _session_class(flavour)(make_app(0, 0, {}), cfg, jitter_result=r) if trig == 0 else _session_class(flavour)(make_app(0, 0, {}), cfg, jitter_result=r, with_trigger=False)
    why = ""
    if none:
        if s.randint_calls:
            why = "jitter drawn although max_requests is None"
    elif s.randint_calls != [(0, j)]:
        why = f"jitter drawn as randint{s.randint_calls!r}, expected randint(0, {j}) exactly once"
    served = 0
    while not why and served < LIMIT:
        if not s.listening():
            break
        tr = s.connect()
        if tr is None:
            break
        if rk == 0:
            s.feed(tr, h1_request("GET", b"/q", [(b"Host", b"example.com"), (b"Connection", b"close")]))
        elif rk == 1:
            hc = H2Client()
            hc.request(1, b"GET", b"/q", end_stream=True)
            s.feed(tr, hc.take())
        elif rk == 2:
            hc = H2Client(upgrade=True)
            s.feed(tr, h1_request("GET", b"/q", [(b"Host", b"example.com"), (b"Connection", b"Upgrade, HTTP2-Settings"), (b"Upgrade", b"h2c"), (b"HTTP2-Settings", hc.upgrade_settings)]))
            s.feed(tr, hc.take())
        else:
            from vf.stubs.clients import ws_h1_handshake

            s.feed(tr, ws_h1_handshake())
        if rk != 0:
            s.advance(0.05)
            tr.peer_eof()
        served += 1
        s.advance(0.1)
    if not why:
        if none:
            if served != LIMIT or not s.listening():
                why = f"worker stopped listening after {served} requests although max_requests is None"
        else:
            want = m + r + 1
            if served != want:
                why = f"worker began its exit after {served} requests, expected {want} (max_requests={m}, jitter result={r})"
    if not why and not none:
        s.advance(10)
        if not s.returned:
            why = "worker did not return after reaching max_requests"
    s.close()
    return done(why == "", max_requests=None if none else m, jitter=j, r=r, served=served, request_kind=["HTTP/1.1", "HTTP/2 prior knowledge", "h2c upgrade", "WebSocket"][rk], worker=["asyncio", "trio"][flavour], external_trigger=trig == 0, why=why)
