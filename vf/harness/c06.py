"""C06 HTTP/1.x persistent-connection and pipelining safety."""
from __future__ import annotations

from typing import List

import h11

from hypercorn.events import Closed, Updated
from hypercorn.protocol.h11 import H11Protocol
from hypercorn.typing import ConnectionState

from vf.rt import DOM, MODE, conc, done, enter, harness
from vf.stubs.b import Conn, make_config
from vf.stubs.clients import h1_parse, h1_request
from vf.stubs.sched import Sched, TaskGroup, WorkerContext

STATES = [h11.IDLE, h11.SEND_RESPONSE, h11.SEND_BODY, h11.DONE, h11.MUST_CLOSE, h11.CLOSED, h11.ERROR, h11.MIGHT_SWITCH_PROTOCOL, h11.SWITCHED_PROTOCOL]


class _FakeH11:
    they_are_waiting_for_100_continue = False
    trailing_data = (b"", False)

    def __init__(self, ours, theirs, raise_on_cycle: bool) -> None:
        self.our_state = ours
        self.their_state = theirs
        self.raise_on_cycle = raise_on_cycle
        self.cycled = 0

    def start_next_cycle(self) -> None:
        if self.raise_on_cycle:
            raise h11.LocalProtocolError("not in a reusable state")
        self.cycled += 1


class _FakeStream:
    def __init__(self) -> None:
        self.handled: List[object] = []

    async def handle(self, ev) -> None:
        self.handled.append(ev)


@harness(
    "C06",
    dom={"oi": (0, len(STATES) - 1), "ti": (0, len(STATES) - 1), "terminated": "bool", "err": "bool", "has_stream": "bool"},
    witnesses=[{"oi": 3, "ti": 3, "terminated": False, "err": False, "has_stream": True}, {"oi": 3, "ti": 2, "terminated": False, "err": False, "has_stream": True}],
    budget=60,
    bounds="_maybe_recycle one step from every (our_state, their_state) pair of h11's 9 states x worker terminating or not x start_next_cycle failing or not x stream present or already gone",
    encodes=["hypercorn/protocol/h11.py::H11Protocol._maybe_recycle", "hypercorn/protocol/h11.py::H11Protocol._close_stream"],
    stubs=["h11.Connection replaced by a two-field fake exposing our_state/their_state/start_next_cycle"],
)
def maybe_recycle_step(oi: int, ti: int, terminated: bool, err: bool, has_stream: bool) -> bool:
    """
    pre: DOM(maybe_recycle_step, oi=oi, ti=ti, terminated=terminated, err=err, has_stream=has_stream)
    post: _
    """
    enter()
    ours = STATES[conc(oi, 0, len(STATES) - 1)]
    theirs = STATES[conc(ti, 0, len(STATES) - 1)]
    terminated = True if terminated else False
    err = True if err else False
    s = Sched()
    ctx = WorkerContext(s)
    sent = []

    async def send(ev):
        sent.append(ev)

    p = H11Protocol(None, make_config(), ctx, TaskGroup(s, None), ConnectionState({}), False, None, None, send)
    fake = _FakeH11(ours, theirs, err)
    p.connection = fake
    stream = _FakeStream() if has_stream else None
    p.stream = stream

    async def go():
        if terminated:
            await ctx.terminated.set()
        await p.can_read.clear()
        await p._maybe_recycle()

    t = s.spawn(go(), "recycle")
    s.run()
    reusable = ours is h11.DONE and theirs is h11.DONE and not terminated and not err
    ok = t.done and t.exc is None
    if reusable:
        ok = ok and fake.cycled == 1 and sent == [Updated(idle=True)] and p.can_read.is_set()
    else:
        ok = ok and sent == [Closed()] and (fake.cycled == 0)
        # a reader parked on a pipelined request must not be left waiting for ever
        if not (ours is h11.DONE and theirs is h11.DONE and not terminated):
            ok = ok and p.can_read.is_set()
    ok = ok and p.stream is None
    if stream is not None:
        ok = ok and len(stream.handled) == 1
    return done(ok, ours=str(ours), theirs=str(theirs), terminated=terminated, err=err, has_stream=has_stream)


# ------------------------------------------------------------------ pipelines

HOSTH = (b"Host", b"example.com")
REQS = [
    dict(method="GET", target=b"/g", headers=[HOSTH], version=b"1.1", framing="none", body=[]),
    dict(method="POST", target=b"/p", headers=[HOSTH], version=b"1.1", framing="content-length", body=[b"body-of-p"]),
    dict(method="POST", target=b"/c", headers=[HOSTH], version=b"1.1", framing="chunked", body=[b"ch", b"unk"]),
    dict(method="GET", target=b"/close", headers=[HOSTH, (b"Connection", b"close")], version=b"1.1", framing="none", body=[]),
    dict(method="GET", target=b"/ten", headers=[HOSTH], version=b"1.0", framing="none", body=[]),
    dict(method="GET", target=b"/ka10", headers=[HOSTH, (b"Connection", b"keep-alive")], version=b"1.0", framing="none", body=[]),
]
APPS = ["read-then-answer", "answer-before-reading", "never-read-body", "start-early-finish-late", "answer-then-linger"]


class PipeApp:
    def __init__(self, variant: str, log: list) -> None:
        self.variant = variant
        self.log = log
        self.instances = []
        self.ctx = None  # set by the harness once the connection exists
        self.lingerers = []

    async def release(self) -> None:
        evs, self.lingerers = self.lingerers, []
        for ev, back in evs:
            await ev.set()

    async def __call__(self, scope, receive, send, sync_spawn=None, call_soon=None):
        idx = len(self.instances)
        inst = {"path": scope["raw_path"], "body": b"", "done": False, "disconnects": 0}
        self.instances.append(inst)
        self.log.append(("start", idx))
        body = b"resp:" + scope["raw_path"]

        async def answer():
            await send({"type": "http.response.start", "status": 200, "headers": [(b"content-length", str(len(body)).encode())]})
            await send({"type": "http.response.body", "body": body, "more_body": False})
            self.log.append(("answered", idx))

        async def read_all():
            while True:
                m = await receive()
                if m["type"] == "http.disconnect":
                    inst["disconnects"] += 1
                    return
                inst["body"] += m["body"]
                if not m.get("more_body"):
                    return

        if self.variant == "answer-then-linger":
            # clean-up after the response: the instance returns only once its successor is under way (or the session ends)
            if self.lingerers:
                evs, self.lingerers = self.lingerers, []
                for ev, back in evs:
                    await ev.set()
                    await back.wait()  # let the predecessor return right now, while this request is in progress
            await read_all()
            await answer()
            ev, back = self.ctx.event_class(), self.ctx.event_class()
            self.lingerers.append((ev, back))
            await ev.wait()
            await back.set()
        elif self.variant == "start-early-finish-late":
            # streaming/echo style: the response head goes out first, the rest after the request body was read
            await send({"type": "http.response.start", "status": 200, "headers": [(b"content-length", str(len(body)).encode())]})
            await read_all()
            await send({"type": "http.response.body", "body": body, "more_body": False})
            self.log.append(("answered", idx))
        elif self.variant == "read-then-answer":
            await read_all()
            await answer()
        elif self.variant == "answer-before-reading":
            await answer()
            await read_all()
        else:
            await answer()
        inst["done"] = True


def _serialise(r: dict) -> bytes:
    return h1_request(r["method"], r["target"], r["headers"], r["body"], r["framing"], r["version"])


def _asks_close(r: dict) -> bool:
    conn = [v.lower() for n, v in r["headers"] if n.lower() == b"connection"]
    if r["version"] == b"1.0":
        return True  # HTTP/1.0 connections are never reused (h11 does not implement 1.0 keep-alive)
    return b"close" in conn


QUICK = MODE["tier"] != "thorough"
CUTMAX, CUTMUL = (5, 12) if QUICK else (60, 1)


@harness(
    "C06",
    dom={"n": (1, 3), "r0": (0, 5), "r1": (0, 5), "r2": (0, 5), "seg": (0, 2), "cut": (0, CUTMAX), "ai": (0, 4), "kmax": (0 if not QUICK else 1, 3), "flavour": (0, 1)},
    split={"r0": "each", "ai": "each", "flavour": "each"},
    thorough_split={"r0": "each", "ai": "each", "r1": "each"},
    witnesses=[{"n": 3, "r0": 0, "r1": 1, "r2": 0, "seg": 0, "cut": 0, "ai": 0, "kmax": 3, "flavour": 0}, {"n": 2, "r0": 1, "r1": 3, "r2": 0, "seg": 1, "cut": 5, "ai": 1, "kmax": 1, "flavour": 0},
               {"n": 3, "r0": 0, "r1": 1, "r2": 0, "seg": 0, "cut": 0, "ai": 4, "kmax": 3, "flavour": 1}],
    budget={"quick": 240, "thorough": 900},
    per_path=120,
    bounds="pipelines of 1..3 requests drawn from 6 templates (quick: in three-request pipelines the third repeats the first) (body/no body, Connection: close|keep-alive|absent, HTTP/1.0|1.1) x segmentation {all in one read, one cut at any of the first 60 offsets (quick: every 12th), one byte per read for the first 40 bytes} x 5 application variants (read then answer, answer before reading, never read the body, response head first and the rest after reading, answer and return only while the next request is in progress) x keep_alive_max_requests in {1,2,1000} (thorough also 3) x worker flavour {asyncio, trio: every primitive operation is a checkpoint}",
    encodes=["hypercorn/protocol/h11.py::H11Protocol._handle_events", "hypercorn/protocol/h11.py::H11Protocol._maybe_recycle", "hypercorn/protocol/h11.py::H11Protocol.stream_send",
             "hypercorn/protocol/h11.py::H11Protocol._create_stream", "hypercorn/protocol/http_stream.py::HTTPStream.app_send"],
    stubs=["tier B runtime"],
)
def h1_pipeline(n: int, r0: int, r1: int, r2: int, seg: int, cut: int, ai: int, kmax: int, flavour: int) -> bool:
    """
    pre: DOM(h1_pipeline, n=n, r0=r0, r1=r1, r2=r2, seg=seg, cut=cut, ai=ai, kmax=kmax, flavour=flavour)
    post: _
    """
    enter()
    flavour = conc(flavour, 0, 1)
    if QUICK and flavour == 1:
        seg = conc(seg, 0, 2)
        if seg == 1:
            return done(True, skipped="quick tier: the trio flavour runs with all requests in one read or byte-wise")
    ok, vec = pipeline(n, r0, r1, r2, seg, cut, ai, kmax, "trio" if flavour == 1 else "asyncio")
    return done(ok, **vec)


def pipeline(n, r0, r1, r2, seg, cut, ai, kmax, flavour="asyncio"):
    """The pipeline rig and its reference (no contract of its own: C18 drives it too); returns (ok, vector)."""
    n = conc(n, 1, 3)
    seg = conc(seg, 0, 2)
    if QUICK and n == 3 and seg != 0:
        return True, {"skipped": "quick tier: three-request pipelines arrive in one read"}
    rs = (r0, r1, r2)
    idx = [conc(rs[i], 0, 5) for i in range(n)]
    if QUICK and n == 3 and idx[2] != idx[0]:
        return True, {"skipped": "quick tier: three-request pipelines repeat the first template as the third"}
    reqs = [REQS[i] for i in idx]
    ai = conc(ai, 0, 4)
    kmax = [3, 1, 2, 1000][conc(kmax, 0, 3)]
    cutv = 0
    if seg == 1:
        cutv = conc(cut, 0, CUTMAX) * CUTMUL
    data = b"".join(_serialise(r) for r in reqs)
    log: list = []
    app = PipeApp(APPS[ai], log)
    conn = Conn(app, make_config(keep_alive_max_requests=kmax), flavour=flavour)
    app.ctx = conn.ctx
    if seg == 0:
        bounds_ = [len(data)]
    elif seg == 1:
        c = min(cutv, len(data))
        bounds_ = [b for b in (c, len(data)) if b > 0]
    else:
        k = min(40, len(data))
        bounds_ = list(range(1, k + 1)) + ([len(data)] if k < len(data) else [])
    bounds_ = sorted(set(bounds_))
    pos = 0
    for b in bounds_:
        conn.feed(data[pos:b])
        pos = b
    if app.lingerers:
        conn.sched.spawn(app.release(), "release")
        conn.sched.run()
    # ---- reference: how many requests are served, and which response announces the close
    def seg_end(off: int) -> int:  # end of the read that delivers byte number `off` (1-based)
        for b in bounds_:
            if off <= b:
                return b
        return bounds_[-1]

    served = 0
    offset = 0
    t_resp = 0
    early_close = False
    for i, r in enumerate(reqs):
        raw = _serialise(r)
        head_end = offset + raw.find(b"\r\n\r\n") + 4
        end = offset + len(raw)
        offset = end
        served += 1
        t_resp = max(t_resp, seg_end(head_end))
        if APPS[ai] in ("answer-before-reading", "never-read-body") and end > t_resp:
            early_close = True  # answered while the request body was still arriving: not reusable
            break
        if _asks_close(r) or served >= kmax:
            break
    why = ""
    if len(app.instances) != served:
        why = f"{len(app.instances)} application instances, expected {served}"
    # strictly one at a time, in arrival order
    if not why:
        order = [e for e in log if e[0] in ("start", "answered")]
        want = []
        for i in range(served):
            want += [("start", i), ("answered", i)]
        if APPS[ai] == "read-then-answer" or True:
            if order != want:
                why = f"instances overlapped or ran out of order: {order}"
    if not why:
        for i in range(served):
            inst = app.instances[i]
            if inst["path"] != reqs[i]["target"]:
                why = f"instance {i} got {inst['path']!r}"
            want_body = b"".join(reqs[i]["body"])
            if early_close and i == served - 1:
                # answered while its body was still arriving: the instance sees a prefix, then the disconnect
                if want_body[: len(inst["body"])] != inst["body"]:
                    why = f"instance {i} body {inst['body']!r} is not a prefix of {want_body!r}"
            elif APPS[ai] != "never-read-body" and inst["body"] != want_body:
                why = f"instance {i} body {inst['body']!r} != {want_body!r}"
    if not why:
        resps, err, closed, trailing = h1_parse(conn.out.peek(), [(r["method"], r["target"]) for r in reqs[:served]])
        if err:
            why = err
        elif len(resps) != served or any(not r.complete for r in resps):
            why = f"client parsed {len(resps)} responses ({[r.complete for r in resps]}), expected {served} complete"
        else:
            for i, r in enumerate(resps):
                if r.status != 200 or r.body != b"resp:" + reqs[i]["target"]:
                    why = f"response {i}: {r!r}"
            last = resps[-1]
            announces = any(n == b"connection" and v.lower() == b"close" for n, v in last.headers)
            must_close = _asks_close(reqs[served - 1]) or served >= kmax
            if early_close:
                must_close = True
                announces = True  # the head was already on the wire when the server learnt it must close
            if must_close and not (announces or last.http_version == b"1.0" or reqs[served - 1]["version"] == b"1.0"):
                why = "connection closes after the last response but it did not announce close"
            if must_close and not conn.server_closed:
                why = "server kept the connection open after a response that had to be the last"
            if not must_close and conn.server_closed:
                why = "server closed a connection that should have been kept alive"
            for r in resps[:-1]:
                if any(n == b"connection" and v.lower() == b"close" for n, v in r.headers):
                    why = "an earlier response announced close but later requests were served"
            if trailing:
                why = f"bytes after the last response: {trailing[:40]!r}"
    if not why and conn.server_closed:
        # the server has closed: nothing of this connection may stay behind (parked reader, send task, application)
        left = [t.name for t in conn.sched.alive()]
        if left:
            why = f"connection closed by the server but tasks are still parked: {left}"
    if not why and conn.sched.errors:
        why = "exception escaped a task: %r" % (conn.sched.errors[0],)
    return why == "", dict(reqs=[r["target"] for r in reqs], seg=seg, cut=cutv, app=APPS[ai], kmax=kmax, flavour=flavour, why=why)
