"""Adjustments to CrossHair 0.0.110 that the harnesses need (applied in every job process).

* builtin `setattr`: CrossHair's patch runs the real setattr under NoTracing, so a Python
  property setter (Config.root_path, Config.bind, ...) would execute untraced with a symbolic
  argument and crash ("Numeric operation on symbolic while not tracing").  Property setters
  are dispatched with tracing on instead.
* `x in {204, 304}`: the literal is compiled to a frozenset constant; CrossHair's containment
  interceptor handles set/dict/str/range but not frozenset, so the symbolic `x` would be hashed,
  i.e. realised value by value (the path tree never exhausts).  frozenset is treated like set.
"""
from __future__ import annotations

import inspect


def apply() -> None:
    import crosshair.core_and_libs  # noqa: F401
    from crosshair import core
    from crosshair.core import realize
    from crosshair.libimpl.builtinslib import AnySymbolicStr, SymbolicValue
    from crosshair.tracers import NoTracing

    def _setattr(obj, name, value):
        fset = None
        with NoTracing():
            if isinstance(obj, SymbolicValue):
                obj = realize(obj)
            if type(name) is AnySymbolicStr:
                name = realize(name)
            try:
                desc = inspect.getattr_static(type(obj), name)
            except AttributeError:
                desc = None
            if isinstance(desc, property):
                fset = desc.fset
                if fset is None:
                    raise AttributeError(f"property '{name}' of '{type(obj).__name__}' object has no setter")
            else:
                return setattr(obj, name, value)
        return fset(obj, value)

    core._PATCH_REGISTRATIONS[setattr] = _setattr

    from crosshair import opcode_intercept as oi
    from crosshair.libimpl.builtinslib import LinearSet, ShellMutableSet

    orig = oi.ContainmentInterceptor.trace_op
    if not getattr(orig, "__vf__", False):

        def trace_op(self, frame, codeobj, codenum):
            item = oi.frame_stack_read(frame, -2)
            if isinstance(item, oi.CrossHairValue):
                container = oi.frame_stack_read(frame, -1)
                if type(container) is frozenset:
                    oi.frame_stack_write(frame, -1, ShellMutableSet(LinearSet(set(container))))
                    return
            return orig(self, frame, codeobj, codenum)

        trace_op.__vf__ = True
        oi.ContainmentInterceptor.trace_op = trace_op
