"""One verification job = one CrossHair analysis of one harness under one partition.

usage: python -m vf.job <json spec>      (spec: prop, harness, part, exclude, tier, budget, mode)
mode:  "check"  symbolic run (twin first, then the real assertion)
       "native" run the harness natively on spec["args"] (witness / replay)
Prints one line `JOBRESULT <json>` on stdout.
"""
from __future__ import annotations

import ast
import importlib
import json
import os
import re
import sys
import time
import traceback

T0 = time.time()


def _load(prop: str):
    mod = importlib.import_module("vf.harness." + prop.lower())
    return mod


def _parse_call(message: str, fn):
    """Extract the argument dict from CrossHair's `when calling f(...)` text."""
    import inspect

    name = fn.__name__
    idx = message.find("when calling " + name + "(")
    if idx < 0:
        return None
    text = message[idx + len("when calling ") :]
    sig = inspect.signature(fn)

    def cap(*a, **k):
        return sig.bind(*a, **k).arguments

    # try progressively shorter prefixes ending in ')'
    ends = [m.end() for m in re.finditer(r"\)", text)]
    for end in reversed(ends):
        try:
            val = eval(text[:end], {name: cap, "__builtins__": {"bytearray": bytearray, "True": True, "False": False, "None": None}})
            if isinstance(val, dict):
                return dict(val)
        except Exception:
            continue
    return None


def native(spec) -> dict:
    from vf import rt

    rt.MODE["tier"] = spec.get("tier", "quick")
    mod = _load(spec["prop"])
    fn = rt.REGISTRY[spec["prop"]][spec["harness"]]
    args = spec["args"]
    if isinstance(args, str):
        args = ast.literal_eval(args)
    funcs = set()
    if spec.get("trace_functions"):
        root = os.path.realpath("/repo/src/hypercorn")

        def prof(frame, event, arg):
            if event == "call":
                co = frame.f_code
                f = co.co_filename
                if f.startswith(root) or f.startswith("/repo/src/hypercorn"):
                    funcs.add(f[len("/repo/src/") :] + "::" + co.co_qualname)

        sys.setprofile(prof)
        import threading

        threading.setprofile(prof)
    t = time.time()
    exc = None
    try:
        ok = bool(fn(**args))
    except Exception as e:  # a harness that raises natively = violated (or harness bug)
        ok = False
        exc = "".join(traceback.format_exception_only(type(e), e)).strip()
        tb = traceback.format_exc()
    finally:
        sys.setprofile(None)
    res = {
        "ok": ok,
        "exc": exc,
        "wall_s": round(time.time() - t, 3),
        "functions": sorted(funcs),
        "notes": rt.STATS["notes"],
        "fail_vec": repr(rt.STATS["last_fail"]) if rt.STATS["last_fail"] is not None else None,
    }
    if exc:
        res["traceback"] = tb[-3000:]
    return res


def check(spec) -> dict:
    import z3

    zstat = {"n": 0, "t": 0.0}
    _orig = z3.Solver.check

    def _check(self, *a):
        t = time.perf_counter()
        try:
            return _orig(self, *a)
        finally:
            zstat["n"] += 1
            zstat["t"] += time.perf_counter() - t

    z3.Solver.check = _check

    from crosshair.core import analyze_function, run_checkables
    import crosshair.core_and_libs  # noqa: F401  (registers libimpl)
    from crosshair.options import AnalysisOptionSet as AOS
    from crosshair.statespace import MessageType
    import collections

    from vf import engine, rt

    engine.apply()
    rt.MODE["tier"] = spec.get("tier", "quick")
    mod = _load(spec["prop"])
    fn = rt.REGISTRY[spec["prop"]][spec["harness"]]
    rt.MODE["part"] = {k: tuple(v) for k, v in spec.get("part", {}).items()}
    rt.MODE["exclude"] = list(spec.get("exclude", []))
    per_path = float(fn.__vf__.get("per_path", 60.0))

    out = {"harness": spec["harness"], "part": spec.get("part", {})}

    def run(budget, twin):
        rt.MODE["twin"] = twin
        for k in ("entered", "reached"):
            rt.STATS[k] = 0
        rt.STATS["vectors"] = set()
        rt.STATS["samples"] = []
        rt.STATS["last_fail"] = None
        stats = collections.Counter()
        opts = AOS(
            per_condition_timeout=float(budget),
            per_path_timeout=per_path,
            max_uninteresting_iterations=sys.maxsize,
            report_all=True,
            stats=stats,
        )
        z0 = dict(zstat)
        t = time.time()
        checkables = analyze_function(fn, opts)
        if not checkables:
            return {"verdict": "NO_CONDITIONS", "messages": []}
        msgs = run_checkables(checkables)
        res = {
            "wall_s": round(time.time() - t, 2),
            "paths": int(stats.get("num_paths", 0)),
            "entered": rt.STATS["entered"],
            "reached": rt.STATS["reached"],
            "distinct_vectors": len(rt.STATS["vectors"]),
            "samples": rt.STATS["samples"][:3],
            "z3_checks": zstat["n"] - z0["n"],
            "z3_s": round(zstat["t"] - z0["t"], 2),
            "messages": [(m.state.name, m.message[:2000]) for m in msgs],
        }
        states = [m.state for m in msgs]
        if MessageType.POST_FAIL in states or MessageType.EXEC_ERR in states or MessageType.POST_ERR in states:
            res["verdict"] = "REFUTED"
            for m in msgs:
                if m.state in (MessageType.POST_FAIL, MessageType.EXEC_ERR, MessageType.POST_ERR):
                    args = None
                    if m.state == MessageType.POST_FAIL and rt.STATS["last_fail"] is not None:
                        # the harness pinned its own inputs; prefer CrossHair's argument repr
                        pass
                    args = _parse_call(m.message, fn)
                    res["cex_kind"] = m.state.name
                    res["cex_args"] = repr(args) if args is not None else None
                    res["cex_vec"] = repr(rt.STATS["last_fail"]) if rt.STATS["last_fail"] is not None else None
                    res["cex_msg"] = m.message[:1500]
                    if m.state != MessageType.POST_FAIL:
                        res["cex_tb"] = (m.traceback or "")[-2500:]
                    break
        elif MessageType.PRE_UNSAT in states:
            res["verdict"] = "PRE_UNSAT"
        elif MessageType.CONFIRMED in states:
            res["verdict"] = "CONFIRMED"
        elif MessageType.CANNOT_CONFIRM in states:
            res["verdict"] = "CANNOT_CONFIRM"
        else:
            res["verdict"] = "OTHER:" + ",".join(s.name for s in states)
        return res

    budget = float(spec.get("budget", 60))
    if not spec.get("skip_twin"):
        tw = run(min(budget, 60.0), True)
        out["twin"] = {k: tw.get(k) for k in ("verdict", "paths", "wall_s", "reached")}
        out["twin_ok"] = tw["verdict"] == "REFUTED" and tw.get("cex_kind") == "POST_FAIL"
        if not out["twin_ok"] and tw["verdict"] == "PRE_UNSAT" and rt.MODE["exclude"]:
            # is the whole partition inside the regions of known findings?
            saved = rt.MODE["exclude"]
            rt.MODE["exclude"] = []
            tw2 = run(min(budget, 60.0), True)
            rt.MODE["exclude"] = saved
            if tw2["verdict"] == "REFUTED" and tw2.get("cex_kind") == "POST_FAIL":
                out.update({"verdict": "KNOWN_REGION", "paths": tw.get("paths", 0), "z3_checks": 0, "z3_s": 0.0, "wall_s": tw.get("wall_s", 0), "twin_ok": True})
                return out
        if not out["twin_ok"]:
            out["twin"]["messages"] = tw.get("messages")
            out.update({"verdict": "VACUOUS", "paths": 0, "z3_checks": 0, "z3_s": 0.0, "wall_s": tw.get("wall_s", 0)})
            return out
    else:
        out["twin_ok"] = None
    res = run(budget, False)
    out.update(res)
    return out


def main() -> None:
    spec = json.loads(sys.argv[1])
    try:
        if spec["mode"] == "native":
            res = native(spec)
        else:
            res = check(spec)
    except BaseException as e:  # job infrastructure failure
        res = {"verdict": "JOB_ERROR", "error": repr(e), "traceback": traceback.format_exc()[-4000:]}
    res["total_s"] = round(time.time() - T0, 2)
    sys.stdout.flush()
    print("\nJOBRESULT " + json.dumps(res, default=repr))
    sys.stdout.flush()
    os._exit(0)


if __name__ == "__main__":
    main()
