#!/bin/bash
# Builds /verif/.venv: a venv layered over /venv (the repository's environment, with
# hypercorn installed editable from /repo/src) plus crosshair-tool from the offline wheelhouse.
# Idempotent; every check calls it when .venv is missing.
set -e
cd "$(dirname "$0")"
if [ -x .venv/bin/python ] && .venv/bin/python -c "import crosshair, z3, hypercorn, h2, h11, wsproto, trio" 2>/dev/null; then
  exit 0
fi
rm -rf .venv
/venv/bin/python -m venv .venv
echo "import site; site.addsitedir('/venv/lib/python3.12/site-packages')" > .venv/lib/python3.12/site-packages/_overlay.pth
PIP_NO_INDEX=1 .venv/bin/pip install -q --no-index --find-links /opt/veriftools/wheels crosshair-tool
.venv/bin/python -c "import crosshair, z3, hypercorn, h2, h11, wsproto, trio; print('verif venv ok: crosshair', crosshair.__version__, 'z3', z3.get_version_string())"
