"""C09 HTTP/2 flow control is respected and multiplexed delivery is live and ordered."""
from __future__ import annotations

import h2.events
import h2.exceptions
import h2.settings
import priority

import hypercorn.protocol.h2 as hh2
from hypercorn.protocol.h2 import H2Protocol, StreamBuffer
from hypercorn.typing import ConnectionState

from vf.rt import DOM, MODE, conc, done, enter, harness
from vf.stubs.b import Conn, GatedApp, make_config, open_gates
from vf.stubs.clients import H2Client
from vf.stubs.lenbuf import LenBuf
from vf.stubs.sched import Sched, TaskGroup, WorkerContext

QUICK = MODE["tier"] != "thorough"


class _FakeConn:
    def __init__(self, window, frame, raises: int) -> None:
        self.window = window
        self.max_outbound_frame_size = frame
        self.raises = raises
        self.sent = []
        self.ended = []

    def local_flow_control_window(self, sid):
        if self.raises == 1:
            raise h2.exceptions.StreamClosedError(sid)
        return self.window

    def send_data(self, sid, data):
        if self.raises == 2:
            raise h2.exceptions.ProtocolError("closed")
        self.sent.append((sid, data.n if isinstance(data, LenBuf) else len(data)))

    def end_stream(self, sid):
        self.ended.append(sid)

    def data_to_send(self):
        return b""


@harness(
    "C09",
    dom={"window": (None, None), "frame": (None, None), "buflen": (0, None), "complete": "bool", "raises": (0, 2)},
    split={"raises": "each"},
    witnesses=[{"window": 100, "frame": 16384, "buflen": 500, "complete": False, "raises": 0}, {"window": -5, "frame": 16384, "buflen": 10, "complete": True, "raises": 0}],
    budget=60,
    bounds="_send_data one step: any stream window (incl. negative), any max frame size, any buffer length (unbounded ints), buffer completed or not, h2 raising for the stream (closed/reset) or not",
    encodes=["hypercorn/protocol/h2.py::H2Protocol._send_data", "hypercorn/protocol/h2.py::StreamBuffer.pop"],
    stubs=["h2 connection replaced by a fake exposing the window, the frame size and recording send_data/end_stream", "length-only stream buffer"],
)
def send_data_step(window: int, frame: int, buflen: int, complete: bool, raises: int) -> bool:
    """
    pre: DOM(send_data_step, window=window, frame=frame, buflen=buflen, complete=complete, raises=raises)
    post: _
    """
    enter()
    raises = conc(raises, 0, 2)
    complete = True if complete else False
    hh2.bytearray = LenBuf  # type: ignore
    hh2.bytes = LenBuf.freeze  # type: ignore
    try:
        s = Sched()
        ctx = WorkerContext(s)
        sent = []

        async def send(ev):
            sent.append(ev)

        p = H2Protocol(None, make_config(), ctx, TaskGroup(s, None), ConnectionState({}), False, None, None, send)
        fake = _FakeConn(window, frame, raises)
        p.connection = fake
        buf = StreamBuffer(ctx.event_class)
        buf.buffer = LenBuf(buflen)
        buf._complete = complete
        p.stream_buffers[1] = buf
        p.priority.insert_stream(1)
        t = s.spawn(p._send_data(1), "send_data")
        s.run()
        ok = t.done and t.exc is None
        if raises and not (raises == 2 and (buflen == 0 or window <= 0 or frame <= 0)):
            # h2 refused: the buffer is force-closed and forgotten, its waiters released
            ok = ok and 1 not in p.stream_buffers and buf._paused.is_set() and buf._is_empty.is_set()
            return done(ok, window=window, frame=frame, buflen=buflen, complete=complete, raises=raises)
        if raises == 1:
            return done(ok, skipped=True)
        limit = window if window <= frame else frame
        if limit < 0:
            limit = 0
        want = buflen if buflen <= limit else limit
        if want > 0:
            ok = ok and fake.sent == [(1, want)]
        else:
            ok = ok and fake.sent == []
            # nothing could be sent: the stream must be blocked so that the send task can sleep
            blocked = False
            try:
                next(p.priority)
            except priority.DeadlockError:
                blocked = True
            except Exception:
                blocked = True  # stream removed (completed)
            ok = ok and blocked
        remaining = buflen - want
        if complete and remaining == 0:
            ok = ok and fake.ended == [1] and 1 not in p.stream_buffers
        else:
            ok = ok and fake.ended == [] and p.stream_buffers.get(1) is buf and buf.buffer.n == remaining
        return done(ok, window=window, frame=frame, buflen=buflen, complete=complete, raises=raises)
    finally:
        del hh2.bytearray  # type: ignore
        del hh2.bytes  # type: ignore


@harness(
    "C09",
    dom={"op": (0, 3), "sid": (0, 5), "in_buffers": "bool", "in_tree": "bool", "dep": (0, 5), "weight": (0, 2), "excl": "bool"},
    split={"op": "each"},
    witnesses=[{"op": 0, "sid": 1, "in_buffers": True, "in_tree": True, "dep": 0, "weight": 1, "excl": False},
               {"op": 2, "sid": 3, "in_buffers": False, "in_tree": False, "dep": 1, "weight": 2, "excl": True}],
    budget=60,
    bounds="_window_updated(stream|0|None) / _priority_updated one step for stream ids 0..5 with the stream present or absent in the buffer table and priority tree, any dependency 0..5, weight in {1,16,256}, exclusive or not",
    encodes=["hypercorn/protocol/h2.py::H2Protocol._window_updated", "hypercorn/protocol/h2.py::H2Protocol._priority_updated"],
    stubs=["real priority.PriorityTree (sealed)"],
)
def window_priority_step(op: int, sid: int, in_buffers: bool, in_tree: bool, dep: int, weight: int, excl: bool) -> bool:
    """
    pre: DOM(window_priority_step, op=op, sid=sid, in_buffers=in_buffers, in_tree=in_tree, dep=dep, weight=weight, excl=excl)
    post: _
    """
    enter()
    op = conc(op, 0, 3)
    sid = conc(sid, 0, 5)
    dep = conc(dep, 0, 5)
    weight = [1, 16, 256][conc(weight, 0, 2)] if op >= 2 else 16
    excl = True if excl else False
    s = Sched()
    ctx = WorkerContext(s)

    async def send(ev):
        pass

    p = H2Protocol(None, make_config(), ctx, TaskGroup(s, None), ConnectionState({}), False, None, None, send)
    p.priority.insert_stream(5)
    p.stream_buffers[5] = StreamBuffer(ctx.event_class)
    p.priority.block(5)
    if in_tree and sid not in (0, 5):
        p.priority.insert_stream(sid)
        p.priority.block(sid)
    if in_buffers and sid not in (0, 5):
        p.stream_buffers[sid] = StreamBuffer(ctx.event_class)
    if in_buffers and not in_tree and sid not in (0, 5):
        return done(True, skipped="a buffer without a tree entry is not reachable")

    async def go():
        await p.has_data.clear()
        if op == 0:
            await p._window_updated(sid)
        elif op == 1:
            await p._window_updated(None)
        else:
            if sid == 0 or dep == sid:
                return
            ev = h2.events.PriorityUpdated()
            ev.stream_id = sid
            ev.depends_on = dep
            ev.weight = weight
            ev.exclusive = excl
            await p._priority_updated(ev)

    t = s.spawn(go(), "step")
    s.run()
    ok = t.done and t.exc is None
    if not (op >= 2 and (sid == 0 or dep == sid)):
        ok = ok and p.has_data.is_set()  # the send task is always woken
    return done(ok, op=op, sid=sid, in_buffers=in_buffers, in_tree=in_tree, dep=dep, weight=weight, excl=excl)


# ------------------------------------------------------------------ sessions

SIZES = [0, 100, 16385, 70000, 1, 16384] if QUICK else [0, 1, 100, 16384, 16385, 70000]
WINDOWS = [0, 1, 100, 65535, 1000000]  # the last one: stream windows never limit, the client acknowledges on the connection only
ACTIONS = ["WU stream1 +1", "WU stream1 +20000", "WU conn +1", "WU conn +70000", "SETTINGS initial_window=40000", "PRIORITY 3 depends on 1 exclusive",
           "RST stream1", "WU stream3 +70000", "SETTINGS initial_window=0", "PRIORITY 1 weight 256"]


_PAT = {sid: bytes(((i * 31 + sid * 7) % 251) for i in range(70000)) for sid in (1, 3, 5)}  # built before tracing starts


def _pattern(n: int, sid: int) -> bytes:
    return _PAT[sid][:n]


def _apply(client: H2Client, a: int, state: dict) -> None:
    open1 = not state["reset1"] and not client.streams[1].ended
    if a == 0:
        if open1:
            client.window_update(1, 1)
    elif a == 1:
        if open1:
            client.window_update(1, 20000)
    elif a == 2:
        client.window_update(0, 1)
    elif a == 3:
        client.window_update(0, 70000)
    elif a == 4:
        client.settings({h2.settings.SettingCodes.INITIAL_WINDOW_SIZE: 40000})
    elif a == 5:
        client.prioritize(3, weight=16, depends_on=1, exclusive=True)
    elif a == 6:
        if not state["reset1"] and not client.streams[1].ended:
            client.reset(1)
            state["reset1"] = True
    elif a == 7:
        if state["n"] >= 2 and not client.streams[3].ended:
            client.window_update(3, 70000)
    elif a == 8:
        client.settings({h2.settings.SettingCodes.INITIAL_WINDOW_SIZE: 0})
    else:
        client.prioritize(1, weight=256)


@harness(
    "C09",
    dom={"n": (1, 2), "z1": (0, 3), "z3": (0, 5), "chunks": (1, 3), "wi": (0, 4), "k": (0, 2), "a0": (0, 9), "a1": (0, 9), "a2": (0, 9), "a3": (0, 9), "a4": (0, 9)},
    thorough_dom={"n": (1, 3), "k": (0, 4), "z1": (0, 5)},
    split={"z1": "each", "wi": "each"},
    thorough_split={"z1": "each", "wi": "each", "a0": "each"},
    witnesses=[{"n": 2, "z1": 3, "z3": 2, "chunks": 1, "wi": 1, "k": 1, "a0": 1, "a1": 3, "a2": 6, "a3": 0, "a4": 0},
               {"n": 1, "z1": 2, "z3": 0, "chunks": 3, "wi": 0, "k": 2, "a0": 4, "a1": 3, "a2": 0, "a3": 0, "a4": 0}],
    budget={"quick": 280, "thorough": 1800},
    per_path=120,
    bounds="1..2 (thorough 3) concurrent streams, response sizes from {0,100,16385,70000} (thorough also 1, 16384) written in 1 or 3 chunks (thorough 1..3), client initial window from {0,1,100,65535} or a client with huge stream windows that acknowledges on the connection window only, then a sequence of 0..2 (thorough 4; quick two-stream sessions 0..1) client control actions from 10 kinds (WINDOW_UPDATE stream/connection small/large, SETTINGS initial window up/down, PRIORITY exclusive/weight, RST_STREAM), finally all windows opened",
    encodes=["hypercorn/protocol/h2.py::H2Protocol.send_task", "hypercorn/protocol/h2.py::H2Protocol._send_data", "hypercorn/protocol/h2.py::H2Protocol._window_updated",
             "hypercorn/protocol/h2.py::H2Protocol._priority_updated", "hypercorn/protocol/h2.py::H2Protocol.stream_send", "hypercorn/protocol/h2.py::StreamBuffer.push"],
    stubs=["tier B runtime", "independent h2 client that enforces flow control on what it receives"],
)
def h2_flow_session(n: int, z1: int, z3: int, chunks: int, wi: int, k: int, a0: int, a1: int, a2: int, a3: int, a4: int) -> bool:
    """
    pre: DOM(h2_flow_session, n=n, z1=z1, z3=z3, chunks=chunks, wi=wi, k=k, a0=a0, a1=a1, a2=a2, a3=a3, a4=a4)
    post: _
    """
    enter()
    n = conc(n, 1, 3)
    k = conc(k, 0, 5)
    chunks = conc(chunks, 1, 3)
    if QUICK and (chunks == 2 or (n >= 2 and k > 1)):
        return done(True, skipped="quick tier: 1 or 3 chunks; two-stream sessions take at most one control action")
    sizes = {1: SIZES[conc(z1, 0, 5)]}
    if QUICK and sizes[1] > 16384 and k > 1:
        return done(True, skipped="quick tier: large responses take at most one control action")
    if n >= 2:
        if QUICK:
            sizes[3] = 16385
        else:
            sizes[3] = SIZES[conc(z3, 0, 5)]
    if n >= 3:
        sizes[5] = 100
    window = WINDOWS[conc(wi, 0, 4)]
    conn_only = window == 1000000
    acts_all = (a0, a1, a2, a3, a4)
    acts = [conc(acts_all[i], 0, 9) for i in range(k)]

    def steps_for(scope, idx):
        sid = int(scope["raw_path"][2:])
        body = _pattern(sizes[sid], sid)
        parts = []
        per = (len(body) + chunks - 1) // chunks if body else 0
        pos = 0
        for c in range(chunks):
            part = body[pos:pos + per] if c < chunks - 1 else body[pos:]
            pos += len(part)
            parts.append(part)
        st = ["recv", ("send", {"type": "http.response.start", "status": 200, "headers": []})]
        for c, part in enumerate(parts):
            st.append(("send", {"type": "http.response.body", "body": part, "more_body": c < len(parts) - 1}))
        return st

    conn = Conn(None, make_config(), alpn="h2")
    app = GatedApp(conn.ctx, steps_for, gated=False)
    conn.proto.app = app
    conn.proto.protocol.app = app
    client = H2Client(initial_window=window, auto_ack=not conn_only)
    for sid in sizes:
        client.request(sid, b"GET", b"/s%d" % sid, end_stream=True)
    conn.feed(client.take())
    client.feed(conn.take())
    state = {"reset1": False, "n": n}
    if conn_only:
        # a client that only ever re-opens the connection window (RFC 9113 allows it: its stream windows are huge)
        acts = [a for a in acts if a in (2, 3, 5, 6, 9)]
        for a in acts:
            _apply(client, a, state)
            conn.feed(client.take())
            client.feed(conn.take())
        for _ in range(6):
            client.ack_connection_only()
            conn.feed(client.take())
            client.feed(conn.take())
    else:
        for a in acts:
            _apply(client, a, state)
            conn.feed(client.take())
            client.feed(conn.take())
            conn.feed(client.take())  # acks / window updates produced while reading
        # finally: open everything so that every non-reset stream can finish
        for _ in range(4):
            client.settings({h2.settings.SettingCodes.INITIAL_WINDOW_SIZE: 1000000})
            client.window_update(0, 1000000)
            conn.feed(client.take())
            client.feed(conn.take())
            conn.feed(client.take())
    steps_before = conn.sched.steps
    conn.sched.run()
    spun = conn.sched.steps - steps_before  # at quiescence nothing is runnable: the send task sleeps on has_data
    why = ""
    if client.errors:
        why = "client-side flow-control/protocol error: %r" % (client.errors,)
    for sid, size in sizes.items():
        st = client.streams[sid]
        if why:
            break
        if sid == 1 and state["reset1"]:
            if _pattern(size, sid)[: len(st.data)] != st.data:
                why = f"stream {sid}: data before the reset is not a prefix of the response"
            continue
        if st.status != 200:
            why = f"stream {sid}: no response head ({st!r})"
        elif st.data != _pattern(size, sid):
            why = f"stream {sid}: {len(st.data)} bytes delivered, {size} expected, or out of order"
        elif st.ended != 1:
            why = f"stream {sid}: END_STREAM seen {st.ended} times"
    if not why:
        for inst in app.instances:
            if not inst.finished and not (inst.scope["raw_path"] == b"/s1" and state["reset1"]):
                why = f"application for {inst.scope['raw_path']!r} still blocked in send at step {inst.step}"
            if inst.send_errors:
                why = f"send raised: {inst.send_errors!r}"
    if not why and spun:
        why = f"{spun} scheduler steps at quiescence: the sender is spinning"
    if not why and conn.sched.errors:
        why = "exception escaped a task: %r" % (conn.sched.errors[0],)
    return done(why == "", n=n, sizes=list(sizes.values()), chunks=chunks, window=window, actions=[ACTIONS[a] for a in acts], why=why)


# ------------------------------------------------------------------ credit arriving while a write is in progress


@harness(
    "C09",
    dom={"level": (0, 1), "pw": (0, 9), "parts": (1, 2), "chunks": (1, 2)},
    split={"level": "each", "pw": "each"},
    witnesses=[{"level": 0, "pw": 3, "parts": 1, "chunks": 1}, {"level": 1, "pw": 6, "parts": 2, "chunks": 2}],
    budget={"quick": 120, "thorough": 600},
    per_path=120,
    bounds="one stream whose response exceeds the peer's credit (stream level: 300 bytes against a 100-byte stream window; connection level: 70000 bytes against the 65535-byte connection window); the peer stops reading from the server's n-th write on (n in 0..9, i.e. every write of the session incl. each DATA frame), grants the missing credit in 1 or 2 WINDOW_UPDATE frames while that write is parked, then reads again and grants nothing more",
    encodes=["hypercorn/protocol/h2.py::H2Protocol.send_task", "hypercorn/protocol/h2.py::H2Protocol._send_data", "hypercorn/protocol/h2.py::H2Protocol._window_updated", "hypercorn/protocol/h2.py::H2Protocol._flush"],
    stubs=["tier B runtime (writes park while the peer is not reading)", "independent h2 client that enforces flow control on what it receives"],
)
def h2_credit_during_write(level: int, pw: int, parts: int, chunks: int) -> bool:
    """
    pre: DOM(h2_credit_during_write, level=level, pw=pw, parts=parts, chunks=chunks)
    post: _
    """
    enter()
    level = conc(level, 0, 1)
    pw = conc(pw, 0, 9)
    parts = conc(parts, 1, 2)
    chunks = conc(chunks, 1, 2)
    size = 300 if level == 0 else 70000
    body = _pattern(size, 1)

    def steps_for(scope, idx):
        st = ["recv", ("send", {"type": "http.response.start", "status": 200, "headers": []})]
        if chunks == 1:
            st.append(("send", {"type": "http.response.body", "body": body, "more_body": False}))
        else:
            st.append(("send", {"type": "http.response.body", "body": body[: size // 2], "more_body": True}))
            st.append(("send", {"type": "http.response.body", "body": body[size // 2:], "more_body": False}))
        return st

    conn = Conn(None, make_config(), alpn="h2")
    app = GatedApp(conn.ctx, steps_for, gated=False)
    conn.proto.app = app
    conn.proto.protocol.app = app
    client = H2Client(initial_window=100 if level == 0 else 1000000, auto_ack=False)
    client.request(1, b"GET", b"/s1", end_stream=True)
    conn.pause_at = pw
    conn.feed(client.take())
    client.feed(conn.take())
    parked = getattr(conn, "parked_writes", 0)
    # the missing credit arrives while the server's write is parked (or, when pw is beyond the last write, afterwards)
    missing = size - 100 if level == 0 else size - 65535 + 1000
    incs = [missing] if parts == 1 else [missing // 2, missing - missing // 2]
    for inc in incs:
        client.window_update(1 if level == 0 else 0, inc)
        conn.feed(client.take())
        client.feed(conn.take())
    conn.resume()
    for _ in range(4):
        client.feed(conn.take())
        conn.feed(client.take())
    conn.sched.run()
    client.feed(conn.take())
    st = client.streams[1]
    why = ""
    if client.errors:
        why = "client-side flow-control/protocol error: %r" % (client.errors,)
    elif st.status != 200:
        why = f"no response head ({st!r})"
    elif st.data != body:
        why = f"{len(st.data)} of {size} bytes delivered although the peer granted credit for all of them"
    elif st.ended != 1:
        why = f"END_STREAM seen {st.ended} times"
    elif conn.sched.errors:
        why = "exception escaped a task: %r" % (conn.sched.errors[0],)
    return done(why == "", level=["stream window", "connection window"][level], paused_from_write=pw, parked=parked, increments=incs, chunks=chunks, why=why)
