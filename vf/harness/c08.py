"""C08 send backpressure is applied, bounded and always released (tier A kernels)."""
from __future__ import annotations

import hypercorn.protocol.h2 as hh2
from hypercorn.protocol.h2 import BUFFER_HIGH_WATER, BufferCompleteError, StreamBuffer

from vf.rt import DOM, conc, done, enter, harness
from vf.stubs.lenbuf import LenBuf
from vf.stubs.sched import Sched

MAXN = 65536
MAXM = 16384


_LOW = hh2.BUFFER_LOW_WATER


def _install_lenbuf() -> None:
    hh2.bytearray = LenBuf  # type: ignore[attr-defined]
    hh2.bytes = LenBuf.freeze  # type: ignore[attr-defined]
    # BUFFER_LOW_WATER is the float 16384.0 (HIGH / 2); int-vs-float comparisons send z3 into
    # mixed real arithmetic (minutes per query).  Replaced by the numerically equal int.
    if isinstance(_LOW, float) and _LOW.is_integer():
        hh2.BUFFER_LOW_WATER = int(_LOW)


def _uninstall_lenbuf() -> None:
    for n in ("bytearray", "bytes"):
        if n in vars(hh2):
            delattr(hh2, n)
    hh2.BUFFER_LOW_WATER = _LOW


def _held(buf: StreamBuffer):
    b = buf.buffer
    return b.n if isinstance(b, LenBuf) else len(b)


class _SB:
    """Drives one StreamBuffer on the tier-B scheduler, checking the oracle after each op."""

    def __init__(self) -> None:
        self.s = Sched()
        self.buf = StreamBuffer(self.s.event_class())
        self.pusher = None
        self.drainer = None
        self.drain_started_nonempty = False
        self.pushed = 0
        self.popped = 0
        self.maxn = 0
        self.closed = False
        self.completed = False
        self.ok = True
        self.why = ""
        self.pop_left_empty = False

    def fail(self, why: str) -> None:
        if self.ok:
            self.ok = False
            self.why = why

    def push(self, n) -> None:
        if self.pusher is not None and not self.pusher.done:
            return  # the application is still blocked in its previous send
        if n > self.maxn:
            self.maxn = n
        expect_raise = self.completed or self.closed

        async def go():
            try:
                await self.buf.push(LenBuf(n))
            except BufferCompleteError:
                return "raised"
            return "ok"

        self.pusher = self.s.spawn(go(), "push")
        self.s.run()
        if expect_raise:
            if not (self.pusher.done and self.pusher.result == "raised"):
                self.fail("push after complete/close did not raise BufferCompleteError")
            self.pusher = None
        else:
            self.pushed = self.pushed + n
            self.pop_left_empty = False
            if self.pusher.done and self.pusher.result != "ok":
                self.fail("push raised on an open buffer")

    def pop(self, m) -> None:
        before = _held(self.buf)

        async def go():
            return await self.buf.pop(m)

        t = self.s.spawn(go(), "pop")
        self.s.run()
        if not t.done or t.exc is not None:
            self.fail("pop parked or raised")
            return
        got = t.result.n if isinstance(t.result, LenBuf) else len(t.result)
        want = before if before <= m else m
        if not (got == want):
            self.fail("pop returned a wrong amount")
        self.popped = self.popped + got
        self.pop_left_empty = before - got == 0
        if before == 0 and self.pusher is not None and not self.pusher.done:
            self.fail("pusher still parked after a pop on an empty buffer")

    def set_complete(self) -> None:
        self.buf.set_complete()
        self.completed = True

    def close(self) -> None:
        async def go():
            await self.buf.close()

        self.s.spawn(go(), "close")
        self.s.run()
        self.closed = True
        if self.s.alive():
            self.fail("a task is still parked after close()")

    def drain(self) -> None:
        if self.drainer is not None and not self.drainer.done:
            return

        async def go():
            await self.buf.drain()

        self.drainer = self.s.spawn(go(), "drain")
        self.s.run()

    def check(self) -> None:
        held = _held(self.buf)
        if not self.closed:
            if not (self.pushed == self.popped + held):
                self.fail("bytes lost or duplicated")
            if held > BUFFER_HIGH_WATER - 1 + 2 * self.maxn:
                self.fail("held data exceeds HIGH_WATER + 2*max chunk")
        if self.drainer is not None:
            if self.drainer.done:
                pass
            elif self.closed or (held == 0 and self.pop_left_empty):
                # the sender's pop that finds/leaves the buffer empty (or close) must release drain()
                self.fail("drain() still waiting although the buffer was emptied/closed")
        if self.drainer is not None and self.drainer.done and not self.closed:
            pass
        if self.s.errors:
            self.fail("exception escaped: %r" % (self.s.errors[0][1],))


def _run_ops(n_ops, kinds, sizes) -> _SB:
    sb = _SB()
    for i in range(n_ops):
        k = kinds[i]
        sz = sizes[i]
        if k == 0:
            if sz >= 1:
                sb.push(sz)
        elif k == 1:
            sb.pop(sz if sz <= MAXM else MAXM)
        elif k == 2:
            sb.set_complete()
        elif k == 3:
            sb.close()
        else:
            sb.drain()
        sb.check()
        if not sb.ok:
            break
    return sb


_W = [
    {"n": 3, "k0": 0, "k1": 1, "k2": 0, "k3": 1, "k4": 0, "k5": 0, "s0": 10, "s1": 4, "s2": 7, "s3": 16384, "s4": 1, "s5": 1},
    {"n": 3, "k0": 0, "k1": 4, "k2": 1, "k3": 2, "k4": 0, "k5": 3, "s0": 40000, "s1": 0, "s2": 16384, "s3": 0, "s4": 5, "s5": 0},
]


@harness(
    "C08",
    dom={"n": (1, 3), **{f"k{i}": (0, 4) for i in range(6)}, **{f"s{i}": (0, MAXN) for i in range(6)}},
    thorough_dom={"n": (1, 5)},
    split={"k0": "each", "k1": "each"},
    thorough_split={"k0": "each", "k1": "each", "k2": "each"},
    witnesses=_W,
    budget={"quick": 100, "thorough": 900},
    bounds="every sequence of <=3 (thorough 5) StreamBuffer operations push(n)|pop(m)|set_complete|close|drain, 1<=n<=65536, 0<=m<=16384, all sizes symbolic",
    encodes=["hypercorn/protocol/h2.py::StreamBuffer.push", "hypercorn/protocol/h2.py::StreamBuffer.pop", "hypercorn/protocol/h2.py::StreamBuffer.drain", "hypercorn/protocol/h2.py::StreamBuffer.close", "hypercorn/protocol/h2.py::StreamBuffer.set_complete"],
    stubs=["hypercorn.protocol.h2.bytearray/bytes replaced by a length-only buffer (content abstracted, length symbolic)", "worker event class = tier-B scheduler event"],
)
def stream_buffer_ops(n: int, k0: int, k1: int, k2: int, k3: int, k4: int, k5: int, s0: int, s1: int, s2: int, s3: int, s4: int, s5: int) -> bool:
    """
    pre: DOM(stream_buffer_ops, n=n, k0=k0, k1=k1, k2=k2, k3=k3, k4=k4, k5=k5, s0=s0, s1=s1, s2=s2, s3=s3, s4=s4, s5=s5)
    post: _
    """
    enter()
    _install_lenbuf()
    try:
        n = conc(n, 1, 6)
        allk = (k0, k1, k2, k3, k4, k5)
        kinds = [conc(allk[i], 0, 4) for i in range(n)]
        sizes = [s0, s1, s2, s3, s4, s5]
        sb = _run_ops(n, kinds, sizes)
        return done(sb.ok, ops=[("push", "pop", "complete", "close", "drain")[kinds[i]] for i in range(n)], sizes=sizes[:n], why=sb.why)
    finally:
        _uninstall_lenbuf()


@harness(
    "C08",
    dom={"n": (0, MAXN * 4), "flag_paused": "bool", "flag_empty": "bool", "complete": "bool", "op": (0, 1), "sz": (0, MAXN)},
    witnesses=[{"n": 10, "flag_paused": False, "flag_empty": False, "complete": False, "op": 1, "sz": 4}],
    budget=60,
    bounds="one operation (push(sz) or pop(sz)) from an arbitrary StreamBuffer pre-state (any buffer length, any event flags) satisfying the representation invariant is_empty => len==0",
    encodes=["hypercorn/protocol/h2.py::StreamBuffer.push", "hypercorn/protocol/h2.py::StreamBuffer.pop"],
    stubs=["length-only buffer"],
)
def stream_buffer_step(n: int, flag_paused: bool, flag_empty: bool, complete: bool, op: int, sz: int) -> bool:
    """
    pre: DOM(stream_buffer_step, n=n, flag_paused=flag_paused, flag_empty=flag_empty, complete=complete, op=op, sz=sz)
    post: _
    """
    enter()
    _install_lenbuf()
    try:
        if flag_empty and n != 0:
            return done(True, skipped="pre-state outside the invariant")
        s = Sched()
        buf = StreamBuffer(s.event_class())
        buf.buffer = LenBuf(n)
        buf._paused._set = True if flag_paused else False
        buf._is_empty._set = True if flag_empty else False
        buf._complete = True if complete else False
        ok = True
        if conc(op, 0, 1) == 0:
            if sz < 1:
                return done(True, skipped="empty push")

            async def go():
                try:
                    await buf.push(LenBuf(sz))
                except BufferCompleteError:
                    return "raised"
                return "ok"

            t = s.spawn(go(), "push")
            s.run()
            if complete:
                ok = t.done and t.result == "raised" and buf.buffer.n == n
            else:
                ok = buf.buffer.n == n + sz and not buf._is_empty.is_set()
                # blocks iff at/above the mark and no (possibly stale) release flag was pending
                parked = not t.done
                if n + sz < BUFFER_HIGH_WATER and parked:
                    ok = False
                if n + sz >= BUFFER_HIGH_WATER and not flag_paused and not parked:
                    ok = False
        else:
            m = sz if sz <= MAXM else MAXM

            async def go2():
                return await buf.pop(m)

            t = s.spawn(go2(), "pop")
            s.run()
            got = t.result.n
            want = n if n <= m else m
            ok = t.done and got == want and buf.buffer.n == n - want
            if buf.buffer.n == 0 and not buf._is_empty.is_set():
                ok = False
            if buf.buffer.n != 0 and buf._is_empty.is_set() and not flag_empty:
                ok = False
            # release rule: a pop that leaves the buffer at/above the mark and takes nothing
            # (the client accepts no data) must not wake the writer
            if want == 0 and n >= BUFFER_HIGH_WATER and not flag_paused and buf._paused.is_set():
                ok = False
        return done(ok, n=n, flag_paused=flag_paused, flag_empty=flag_empty, complete=complete, op=op, sz=sz)
    finally:
        _uninstall_lenbuf()


@harness(
    "C08",
    dom={"a": ("bytes", 3), "b": ("bytes", 3), "k": (0, 7)},
    witnesses=[{"a": b"ab", "b": b"c", "k": 2}],
    budget=60,
    bounds="stub validation: LenBuf agrees with bytearray on len after extend / [:k] / del [:k] for contents of length <= 3+3, 0<=k<=7",
    encodes=[],
)
def lenbuf_matches_bytearray(a: bytes, b: bytes, k: int) -> bool:
    """
    pre: DOM(lenbuf_matches_bytearray, a=a, b=b, k=k)
    post: _
    """
    enter()
    real = bytearray(a)
    fake = LenBuf(len(a))
    real.extend(b)
    fake.extend(b)
    ok = len(real) == fake.n
    ok = ok and len(bytes(real[:k])) == LenBuf.freeze(fake[:k]).n
    del real[:k]
    del fake[:k]
    ok = ok and len(real) == fake.n and (len(real) == 0) == (not fake)
    return done(ok, la=len(a), lb=len(b), k=k)


def _inv(held, paused_flag, parked, m):
    """Inductive invariant behind the bound  held < HIGH_WATER + 2*m  (m = largest chunk)."""
    if parked:
        return held < BUFFER_HIGH_WATER + 2 * m and not paused_flag
    if paused_flag:
        return held < BUFFER_HIGH_WATER
    return held < BUFFER_HIGH_WATER + m


@harness(
    "C08",
    dom={"b0": (0, 4 * MAXN), "n0": (0, MAXN), "flag": "bool", "op": (0, 1), "sz": (0, MAXN)},
    witnesses=[{"b0": 100, "n0": 0, "flag": False, "op": 0, "sz": 50}, {"b0": 30000, "n0": 5000, "flag": False, "op": 1, "sz": 16384}],
    budget=90,
    bounds="inductive step: any pre-state (held bytes, release flag, writer parked or not) satisfying the invariant, one push(1..65536) or pop(0..16384), invariant re-established; implies held < HIGH_WATER + 2*65536 after histories of any length",
    encodes=["hypercorn/protocol/h2.py::StreamBuffer.push", "hypercorn/protocol/h2.py::StreamBuffer.pop"],
    stubs=["length-only buffer", "application chunk size <= 65536"],
)
def stream_buffer_inductive(b0: int, n0: int, flag: bool, op: int, sz: int) -> bool:
    """
    pre: DOM(stream_buffer_inductive, b0=b0, n0=n0, flag=flag, op=op, sz=sz)
    post: _
    """
    enter()
    _install_lenbuf()
    try:
        s = Sched()
        buf = StreamBuffer(s.event_class())
        buf.buffer = LenBuf(b0)
        flag = True if flag else False
        buf._paused._set = flag
        pusher = None
        if n0 > 0:
            # pre-state with the writer inside push(n0): only consistent when it parks
            if flag or not _inv(b0, False, False, MAXN):
                return done(True, skipped="pre-state outside the invariant")

            async def p0():
                await buf.push(LenBuf(n0))

            pusher = s.spawn(p0(), "push0")
            s.run()
            if pusher.done:
                pusher = None
        held = buf.buffer.n
        parked = pusher is not None
        if not _inv(held, buf._paused.is_set(), parked, MAXN):
            return done(True, skipped="pre-state outside the invariant")
        if conc(op, 0, 1) == 0:
            if parked or sz < 1:
                return done(True, skipped="writer is blocked: no second push")

            async def p1():
                await buf.push(LenBuf(sz))

            pusher = s.spawn(p1(), "push1")
            s.run()
        else:
            m = sz if sz <= MAXM else MAXM

            async def p2():
                await buf.pop(m)

            s.spawn(p2(), "pop")
            s.run()
        parked2 = pusher is not None and not pusher.done
        ok = _inv(buf.buffer.n, buf._paused.is_set(), parked2, MAXN) and not s.errors
        return done(ok, b0=b0, n0=n0, flag=flag, op=op, sz=sz)
    finally:
        _uninstall_lenbuf()
