"""C19 configuration sources agree, binds parse to the intended sockets."""
from __future__ import annotations

import argparse
import os
import re
import socket as _socket
import ssl
import types
from typing import Any, Dict, List, Tuple

import hypercorn.__main__ as hmain
import hypercorn.config as hconfig
from hypercorn.config import Config

from vf.rt import DOM, NoTracing, conc, done, enter, harness, is_tracing

# ---------------------------------------------------------------- flag table (from the code)

_CAPTURED: Dict[str, Any] = {}


def _flag_table() -> List[dict]:
    """argparse actions of hypercorn.__main__.main, captured from the real parser."""
    if "actions" in _CAPTURED:
        return _CAPTURED["actions"]
    orig = argparse.ArgumentParser.parse_args

    def cap(self, args=None, namespace=None):
        _CAPTURED["parser"] = self
        return orig(self, args, namespace)

    argparse.ArgumentParser.parse_args = cap
    saved = hmain.run
    hmain.run = lambda config: 0
    try:
        hmain.main(["app:app"])
    finally:
        hmain.run = saved
        argparse.ArgumentParser.parse_args = orig
    acts = []
    for a in _CAPTURED["parser"]._actions:
        if not a.option_strings or a.dest in ("help", "config"):
            continue
        kind = "str"
        if isinstance(a, argparse._StoreTrueAction):
            kind = "flag"
        elif isinstance(a, argparse._AppendAction):
            kind = "list"
        elif a.type is int:
            kind = "int"
        elif a.type is not None:
            kind = "conv"
        acts.append({"flags": list(a.option_strings), "dest": a.dest, "kind": kind})
    _CAPTURED["actions"] = acts
    return acts


def _doc_table() -> Dict[str, str]:
    """flag -> Config attribute, parsed from docs/how_to_guides/configuring.rst (the oracle)."""
    if "doc" in _CAPTURED:
        return _CAPTURED["doc"]
    table: Dict[str, str] = {}
    attr = None
    with open("/repo/docs/how_to_guides/configuring.rst") as f:
        lines = f.read().splitlines()
    in_table = False
    for line in lines:
        if line.startswith("Attribute "):
            in_table = True
            continue
        if not in_table:
            continue
        if line.startswith("====") or line.startswith("----"):
            continue
        first = line[:27].strip()
        second = line[27:57]
        if first and re.fullmatch(r"[a-z_0-9]+", first):
            attr = first
        if attr:
            for flag in re.findall(r"``(-{1,2}[a-z0-9-]+)``", second):
                table[flag] = attr
    # deprecated aliases that the parser's own help text documents
    table.setdefault("--access-log", "accesslog")
    table.setdefault("--error-log", "errorlog")
    table.setdefault("--cert-reqs", "verify_mode")
    _CAPTURED["doc"] = table
    return table


def _data_names() -> List[str]:
    if "names" in _CAPTURED:
        return _CAPTURED["names"]
    c = Config()
    names = []
    for name in dir(c):
        if name.startswith("__") or name in ("log", "_log", "cert_reqs"):
            continue
        try:
            v = getattr(c, name)
        except AttributeError:
            continue
        if callable(v) and not isinstance(v, type):
            continue
        names.append(name)
    _CAPTURED["names"] = names
    return names


def snapshot(config: Config) -> Dict[str, Any]:
    snap = {}
    for name in _data_names():
        snap[name] = getattr(config, name)
    for name in vars(config):  # instance attributes that are not Config settings at all
        if name not in snap and name not in ("_log",):
            snap[name] = getattr(config, name)
    return snap


_TOKENS: Dict[str, Any] = {}


def _tok(value) -> str:
    """Hand a (possibly symbolic) value to argparse as an opaque token.

    argparse's own `type=int` conversion (int(str)) is Python's, not hypercorn's; it is
    stubbed by identity on the represented value so that the value stays symbolic from the
    command line to the Config attribute."""
    name = "@%d" % len(_TOKENS)
    _TOKENS[name] = value
    return name


def _untok(conv):
    def f(s):
        if s in _TOKENS:
            return _TOKENS[s]
        return conv(s) if conv is not None else s

    return f


def run_main(argv: List[str]) -> Config:
    box = {}

    def fake_run(config):
        box["c"] = config
        return 0

    orig = argparse.ArgumentParser.parse_args

    def patched(self, args=None, namespace=None):
        for act in self._actions:
            if act.option_strings and not isinstance(act, (argparse._StoreTrueAction, argparse._HelpAction)):
                if getattr(act.type, "__name__", "") != "f" and act.type is not None and act.type is not int:
                    continue  # real converters (verify-mode) stay real
                act.type = _untok(act.type)
        return orig(self, args, namespace)

    saved = hmain.run
    hmain.run = fake_run
    argparse.ArgumentParser.parse_args = patched
    try:
        import warnings

        with warnings.catch_warnings():
            warnings.simplefilter("ignore")
            hmain.main(argv)
    finally:
        hmain.run = saved
        argparse.ArgumentParser.parse_args = orig
        _TOKENS.clear()
    return box["c"]


def _diff(base: Dict[str, Any], got: Dict[str, Any]) -> Dict[str, Any]:
    out = {}
    for k in set(base) | set(got):
        if k == "application_path":
            continue
        a = base.get(k, "<absent>")
        b = got.get(k, "<absent>")
        if not (type(a) is type(b) and a == b):
            out[k] = b
    return out


INT_FLAGS = [a for a in _flag_table() if a["kind"] == "int"]
STR_FLAGS = [a for a in _flag_table() if a["kind"] == "str"]
ALL_FLAGS = _flag_table()
_BASE = snapshot(run_main(["app:app"]))
_PROPS = {"bind": "_bind", "insecure_bind": "_insecure_bind", "quic_bind": "_quic_bind", "root_path": "_root_path"}


def _expect_attr(flag: str) -> str:
    return _doc_table()[flag]


def _expected_value(attr: str, kind: str, raw):
    if attr == "root_path":
        return raw.rstrip("/")
    return raw


def _check_single(flagdesc: dict, flag: str, argv_tail: List[str], value) -> bool:
    cfg = run_main(argv_tail + ["app:app"])
    d = _diff(_BASE, snapshot(cfg))
    attr = _expect_attr(flag)
    want = {attr: value}
    if attr in _PROPS:
        want[_PROPS[attr]] = value
    if attr in ("certfile", "keyfile"):
        pass
    # exactly this setting changed (a value equal to the default shows no difference)
    for k, v in d.items():
        if k not in want:
            return False
        if not (v == want[k]):
            return False
    for k, v in want.items():
        if not (getattr(cfg, k) == v):
            return False
    return True


@harness(
    "C19",
    dom={"fi": (0, len(INT_FLAGS) - 1), "v": (None, None)},
    split={"fi": "each"},
    witnesses=[{"fi": i, "v": 7 + i} for i in range(len(INT_FLAGS)) if INT_FLAGS[i]["dest"] not in ("max_requests_jitter", "cert_reqs")],
    budget=40,
    bounds="every integer-typed command-line flag alone, value = any Python int (unbounded)",
    encodes=["hypercorn/__main__.py::main", "hypercorn/__main__.py::_load_config"],
    stubs=["hypercorn.__main__.run replaced by a recorder (no server is started)"],
)
def cli_single_int(fi: int, v: int) -> bool:
    """
    pre: DOM(cli_single_int, fi=fi, v=v)
    post: _
    """
    enter()
    fi = conc(fi, 0, len(INT_FLAGS) - 1)
    desc = INT_FLAGS[fi]
    flag = desc["flags"][-1]
    if desc["dest"] == "cert_reqs":
        # deprecated alias: value must name an ssl.VerifyMode, checked separately
        return done(True, flag=flag, v=v)
    ok = _check_single(desc, flag, [flag, _tok(v)], v)
    return done(ok, flag=flag, v=v)


_PAIRS = [(i, j) for i in range(len(INT_FLAGS)) for j in range(len(INT_FLAGS)) if i < j]


@harness(
    "C19",
    dom={"pi": (0, len(_PAIRS) - 1), "a": (None, None), "b": (None, None), "swap": "bool"},
    split={"pi": 16},
    thorough_split={"pi": "each"},
    witnesses=[{"pi": 0, "a": 3, "b": 4, "swap": False}],
    budget={"quick": 60, "thorough": 120},
    bounds="every unordered pair of integer flags in both argv orders, values any two ints",
    encodes=["hypercorn/__main__.py::main"],
)
def cli_pair_int(pi: int, a: int, b: int, swap: bool) -> bool:
    """
    pre: DOM(cli_pair_int, pi=pi, a=a, b=b, swap=swap)
    post: _
    """
    enter()
    pi = conc(pi, 0, len(_PAIRS) - 1)
    i, j = _PAIRS[pi]
    di, dj = INT_FLAGS[i], INT_FLAGS[j]
    if "cert_reqs" in (di["dest"], dj["dest"]):
        return done(True, pi=pi)
    fi, fj = di["flags"][-1], dj["flags"][-1]
    argv = [fi, _tok(a)]
    if swap:
        argv = [fj, _tok(b)] + argv
    else:
        argv = argv + [fj, _tok(b)]
    cfg = run_main(argv + ["app:app"])
    d = _diff(_BASE, snapshot(cfg))
    ai, aj = _expect_attr(fi), _expect_attr(fj)
    ok = getattr(cfg, ai) == a and getattr(cfg, aj) == b
    for k in d:
        if k not in (ai, aj):
            ok = False
    return done(ok, flags=(fi, fj), a=a, b=b, swap=swap)


# ---------------------------------------------------------------- all flags, one at a time

_MARK = ["/m0", "m1/", "-", "x y"]
_VERIFY = ["CERT_NONE", "CERT_OPTIONAL", "CERT_REQUIRED"]


def _argv_for(desc: dict, vi, vs, form: int):
    """argv fragment + expected value for one flag."""
    flag = desc["flags"][form % len(desc["flags"])]
    kind = desc["kind"]
    if kind == "int":
        if desc["dest"] == "cert_reqs":
            n = conc(vi, 0, 2)
            return flag, [flag, str(n)], ssl.VerifyMode(n)
        return flag, [flag, _tok(vi)], vi
    if kind == "flag":
        return flag, [flag], True
    if kind == "list":
        return flag, [flag, _tok(vs)], [vs]
    if kind == "conv":
        n = conc(vi, 0, 2)
        return flag, [flag, _VERIFY[n]], ssl.VerifyMode[_VERIFY[n]]
    return flag, [flag, _tok(vs)], vs


def _want(flag: str, value) -> Dict[str, Any]:
    attr = _expect_attr(flag)
    if attr == "root_path":
        value = _ref_root_path(value)
    want = {attr: value}
    if attr in _PROPS:
        want[_PROPS[attr]] = value
    if attr in ("certfile", "keyfile"):
        want["ssl_enabled"] = None  # derived property, may legitimately change
    return want


def _ref_root_path(value: str) -> str:
    n = len(value)
    while n > 0 and value[n - 1] == "/":
        n -= 1
    return value[:n]


def _matches(cfg: Config, wants: Dict[str, Any]) -> bool:
    d = _diff(_BASE, snapshot(cfg))
    for k, v in d.items():
        if k not in wants:
            return False
        if wants[k] is not None and not (v == wants[k]):
            return False
    for k, v in wants.items():
        if v is not None and not (getattr(cfg, k) == v):
            return False
    return True


@harness(
    "C19",
    dom={"fi": (0, len(ALL_FLAGS) - 1), "form": (0, 1), "vi": (None, None), "vs": ("str", 2)},
    thorough_dom={"vs": ("str", 3)},
    split={"fi": "each"},
    witnesses=[{"fi": i, "form": 0, "vi": 2, "vs": "ab"} for i in range(0, len(ALL_FLAGS), 5)],
    budget={"quick": 60, "thorough": 200},
    bounds="every command-line flag alone (short and long spelling); int values unbounded, str values len<=2 (thorough 3) over all of unicode",
    encodes=["hypercorn/__main__.py::main", "hypercorn/config.py::Config.root_path", "hypercorn/config.py::Config.bind"],
    stubs=["argparse type=int conversion stubbed by identity on the represented integer (values are passed as opaque tokens)"],
)
def cli_single(fi: int, form: int, vi: int, vs: str) -> bool:
    """
    pre: DOM(cli_single, fi=fi, form=form, vi=vi, vs=vs)
    post: _
    """
    enter()
    fi = conc(fi, 0, len(ALL_FLAGS) - 1)
    form = conc(form, 0, 1)
    desc = ALL_FLAGS[fi]
    flag, argv, value = _argv_for(desc, vi, vs, form)
    cfg = run_main(argv + ["app:app"])
    ok = _matches(cfg, _want(flag, value))
    return done(ok, flag=flag, vi=vi, vs=vs)


_ALLPAIRS = [(i, j) for i in range(len(ALL_FLAGS)) for j in range(len(ALL_FLAGS)) if i < j]


@harness(
    "C19",
    dom={"pi": (0, len(_ALLPAIRS) - 1), "swap": "bool", "a": (None, None), "b": (None, None)},
    split={"pi": 64},
    tiers=("thorough",),
    witnesses=[{"pi": 7, "swap": True, "a": 1, "b": 2}],
    budget=400,
    bounds="every unordered pair of distinct flags in both argv orders; int values unbounded, str values distinct markers",
    encodes=["hypercorn/__main__.py::main"],
)
def cli_pair_all(pi: int, swap: bool, a: int, b: int) -> bool:
    """
    pre: DOM(cli_pair_all, pi=pi, swap=swap, a=a, b=b)
    post: _
    """
    enter()
    pi = conc(pi, 0, len(_ALLPAIRS) - 1)
    i, j = _ALLPAIRS[pi]
    f1, argv1, v1 = _argv_for(ALL_FLAGS[i], a, _MARK[0], 1)
    f2, argv2, v2 = _argv_for(ALL_FLAGS[j], b, _MARK[1], 1)
    argv = argv2 + argv1 if swap else argv1 + argv2
    cfg = run_main(argv + ["app:app"])
    w1, w2 = _want(f1, v1), _want(f2, v2)
    if _expect_attr(f1) == _expect_attr(f2):
        # two spellings of one setting (--access-log / --access-logfile): the later assignment in main wins
        return done(True, flags=(f1, f2))
    wants = dict(w1)
    wants.update(w2)
    ok = _matches(cfg, wants)
    return done(ok, flags=(f1, f2), a=a, b=b, swap=swap)


# ---------------------------------------------------------------- config file + CLI

_SETTINGS: List[Tuple[str, str]] = []
for _n in _data_names():
    if _n.startswith("_") or _n in ("ssl_enabled", "logger_class", "application_path"):
        continue
    _v = getattr(Config(), _n)
    if isinstance(_v, bool):
        _SETTINGS.append((_n, "bool"))
    elif isinstance(_v, int):
        _SETTINGS.append((_n, "int"))
    elif isinstance(_v, float):
        _SETTINGS.append((_n, "num"))
    elif isinstance(_v, str):
        _SETTINGS.append((_n, "str"))
    elif isinstance(_v, list):
        _SETTINGS.append((_n, "list"))
    else:
        _SETTINGS.append((_n, "opt"))  # Optional[...] defaulting to None
_OPT_KIND = {
    "accesslog": "str", "ca_certs": "str", "certfile": "str", "keyfile": "str", "keyfile_password": "str",
    "logconfig": "str", "pid_path": "str", "statsd_host": "str", "group": "int", "umask": "int", "user": "int",
    "max_requests": "int", "read_timeout": "int", "websocket_ping_interval": "int", "logconfig_dict": "skip",
    "verify_flags": "skip", "verify_mode": "skip",
}


def _value_for(name: str, kind: str, vi, vs, vb):
    if kind == "opt":
        kind = _OPT_KIND.get(name, "skip")
    if kind == "bool":
        return vb
    if kind in ("int", "num"):
        return vi
    if kind == "str":
        return vs
    if kind == "list":
        return [vs]
    return None


@harness(
    "C19",
    dom={"ki": (0, len(_SETTINGS) - 1), "vi": (None, None), "vs": ("str", 2), "vb": "bool", "fi": (-1, -1)},
    thorough_dom={"fi": (-1, len(ALL_FLAGS) - 1)},
    split={"ki": 16},
    thorough_split={"ki": "each", "fi": 4},
    witnesses=[{"ki": k, "vi": 3, "vs": "zz", "vb": True, "fi": -1} for k in range(0, len(_SETTINGS), 7)],
    budget={"quick": 80, "thorough": 300},
    bounds="every public Config setting loaded from a config source with a symbolic value, combined with no flag (quick) or any one other flag (thorough)",
    encodes=["hypercorn/__main__.py::main", "hypercorn/config.py::Config.from_mapping"],
    stubs=["hypercorn.__main__._load_config returns Config.from_mapping({key: value}) (no file I/O)"],
)
def cli_keeps_loaded_config(ki: int, vi: int, vs: str, vb: bool, fi: int) -> bool:
    """
    pre: DOM(cli_keeps_loaded_config, ki=ki, vi=vi, vs=vs, vb=vb, fi=fi)
    post: _
    """
    enter()
    ki = conc(ki, 0, len(_SETTINGS) - 1)
    fi = conc(fi, -1, len(ALL_FLAGS) - 1)
    name, kind = _SETTINGS[ki]
    value = _value_for(name, kind, vi, vs, vb)
    if value is None:
        return done(True, key=name)
    argv = ["-c", "loaded"]
    flag = None
    if fi >= 0:
        flag, extra, fval = _argv_for(ALL_FLAGS[fi], 5, _MARK[2], 1)
        if _expect_attr(flag) == name or (name in ("certfile", "keyfile")):
            return done(True, key=name, flag=flag)
        argv += extra
    saved = hmain._load_config
    hmain._load_config = lambda path: Config.from_mapping({name: value})
    try:
        cfg = run_main(argv + ["app:app"])
    finally:
        hmain._load_config = saved
    want = value
    if name == "root_path":
        want = _ref_root_path(value)
    ok = getattr(cfg, name) == want
    # and nothing else moved, except what the extra flag is documented to set
    wants = {name: None}
    if name in _PROPS:
        wants[_PROPS[name]] = None
    if flag is not None:
        wants.update(_want(flag, fval))
    if not _matches(cfg, wants):
        ok = False
    return done(ok, key=name, flag=flag, vi=vi, vs=vs, vb=vb)


# ---------------------------------------------------------------- loaders agree


class _Obj:
    pass


@harness(
    "C19",
    dom={"ki": (0, len(_SETTINGS) - 1), "vi": (None, None), "vs": ("str", 2), "vb": "bool"},
    split={"ki": 8},
    witnesses=[{"ki": k, "vi": -4, "vs": "/", "vb": False} for k in range(0, len(_SETTINGS), 9)],
    budget=60,
    bounds="every public Config setting x symbolic value of its type through from_mapping(dict), from_mapping(**kw), from_object(obj) and plain attribute assignment",
    encodes=["hypercorn/config.py::Config.from_mapping", "hypercorn/config.py::Config.from_object"],
)
def loaders_agree(ki: int, vi: int, vs: str, vb: bool) -> bool:
    """
    pre: DOM(loaders_agree, ki=ki, vi=vi, vs=vs, vb=vb)
    post: _
    """
    enter()
    ki = conc(ki, 0, len(_SETTINGS) - 1)
    name, kind = _SETTINGS[ki]
    value = _value_for(name, kind, vi, vs, vb)
    if value is None:
        return done(True, key=name)
    ref = Config()
    setattr(ref, name, value)
    a = Config.from_mapping({name: value})
    b = Config.from_mapping(**{name: value})
    o = _Obj()
    setattr(o, name, value)
    c = Config.from_object(o)
    sa, sb, sc, sr = snapshot(a), snapshot(b), snapshot(c), snapshot(ref)
    ok = (not _diff(sr, sa)) and (not _diff(sr, sb)) and (not _diff(sr, sc))
    want = _ref_root_path(value) if name == "root_path" else value
    if not (getattr(a, name) == want):
        ok = False
    return done(ok, key=name, vi=vi, vs=vs, vb=vb)


# files are written natively at import time (before any tracing starts)
import atexit
import shutil
import tempfile

_VALS = {"int": [0, 1, -1, 2**40], "num": [0, 7, 2.5], "bool": [True, False], "str": ["", "a", "/x/", "é"], "list": [[], ["a"], ["a", "b:1"]]}
_FILEDIR = tempfile.mkdtemp(prefix=f"vf_c19_{os.getpid()}_")  # pid in the name: ./check sweeps dirs of dead jobs
atexit.register(shutil.rmtree, _FILEDIR, True)
_FILES: List[Tuple[str, Any, str, str]] = []


def _toml_lit(v) -> str:
    if isinstance(v, bool):
        return "true" if v else "false"
    if isinstance(v, (int, float)):
        return repr(v)
    if isinstance(v, str):
        return '"' + v + '"'
    return "[" + ", ".join(_toml_lit(x) for x in v) + "]"


for _name, _kind in _SETTINGS:
    _k = _OPT_KIND.get(_name, "skip") if _kind == "opt" else _kind
    for _idx, _val in enumerate(_VALS.get(_k, [])):
        _py = os.path.join(_FILEDIR, f"{_name}_{_idx}.py")
        _tm = os.path.join(_FILEDIR, f"{_name}_{_idx}.toml")
        with open(_py, "w", encoding="utf8") as _f:
            _f.write(f"{_name} = {_val!r}\n")
        with open(_tm, "w", encoding="utf8") as _f:
            _f.write(f"{_name} = {_toml_lit(_val)}\n")
        _FILES.append((_name, _val, _py, _tm))


@harness(
    "C19",
    dom={"fi": (0, len(_FILES) - 1), "via_cli": "bool"},
    split={"fi": 16},
    witnesses=[{"fi": 0, "via_cli": True}],
    budget=90,
    bounds="every (setting, value) of a concrete table (%d files) through from_pyfile, from_toml and the -c file:/toml CLI routes" % len(_FILES),
    encodes=["hypercorn/config.py::Config.from_pyfile", "hypercorn/config.py::Config.from_toml", "hypercorn/__main__.py::_load_config"],
)
def file_loaders_agree(fi: int, via_cli: bool) -> bool:
    """
    pre: DOM(file_loaders_agree, fi=fi, via_cli=via_cli)
    post: _
    """
    enter()
    fi = conc(fi, 0, len(_FILES) - 1)
    name, val, py, tm = _FILES[fi]
    ref = Config.from_mapping({name: val})
    if via_cli:
        a = run_main(["-c", "file:" + py, "app:app"])
        b = run_main(["-c", tm, "app:app"])
    else:
        a = Config.from_pyfile(py)
        b = Config.from_toml(tm)
    sr = snapshot(ref)
    ok = (not _diff(sr, snapshot(a))) and (not _diff(sr, snapshot(b)))
    return done(ok, key=name, value=val, via_cli=via_cli)


# ---------------------------------------------------------------- bind strings -> sockets


class _RecSock:
    def __init__(self, mod, family=None, type_=None, fileno=None) -> None:
        self.mod = mod
        self.family = family
        self.type = type_
        self.fileno_ = fileno
        self.bound = None
        self.opts = []
        self.blocking = None

    def setsockopt(self, level, name, value) -> None:
        self.opts.append((level, name, value))

    def getsockopt(self, level, name):
        return self.mod.fd_types.get(self.fileno_, self.mod.SOCK_STREAM)

    def bind(self, addr) -> None:
        self.bound = addr

    def setblocking(self, flag) -> None:
        self.blocking = flag

    def set_inheritable(self, flag) -> None:
        pass


class _FakeSocketModule:
    """Recorder standing in for the `socket` module inside hypercorn.config."""

    AF_INET, AF_INET6, AF_UNIX = _socket.AF_INET, _socket.AF_INET6, _socket.AF_UNIX
    SOCK_STREAM, SOCK_DGRAM = _socket.SOCK_STREAM, _socket.SOCK_DGRAM
    SOL_SOCKET, SO_REUSEADDR, SO_REUSEPORT, SO_TYPE = _socket.SOL_SOCKET, _socket.SO_REUSEADDR, getattr(_socket, "SO_REUSEPORT", 15), _socket.SO_TYPE
    IPPROTO_TCP, TCP_NODELAY = _socket.IPPROTO_TCP, _socket.TCP_NODELAY
    SocketKind = _socket.SocketKind

    def __init__(self) -> None:
        self.created = []
        self.fd_types = {}

    def socket(self, family=None, type=None, fileno=None):
        s = _RecSock(self, family, type, fileno)
        self.created.append(s)
        return s


class _FakeOS:
    def __init__(self) -> None:
        self.removed = []

    def stat(self, path):
        raise FileNotFoundError(path)

    def remove(self, path) -> None:
        self.removed.append(path)

    def umask(self, m):
        return 0o22

    def chown(self, *a) -> None:
        pass

    def fspath(self, p):
        return os.fspath(p)

    PathLike = os.PathLike


_HOSTS4 = ["127.0.0.1", "0.0.0.0", "localhost", "a", "a.b", "1"]
_HOSTS6 = ["::", "::1", "fe80::1", "1:2"]
_PORTS = [0, 1, 80, 8000, 65535]


@harness(
    "C19",
    dom={"shape": (0, 5), "hi": (0, 5), "pi": (0, 4), "dgram": "bool", "workers": (1, 2), "fdn": (0, 3)},
    split={"shape": "each"},
    witnesses=[{"shape": 0, "hi": 0, "pi": 3, "dgram": False, "workers": 1, "fdn": 1}, {"shape": 2, "hi": 1, "pi": 2, "dgram": True, "workers": 2, "fdn": 1},
               {"shape": 5, "hi": 0, "pi": 0, "dgram": False, "workers": 1, "fdn": 2}],
    budget=60,
    bounds="bind shapes {host:port, bare host, [v6]:port, [v6], unix:path, fd://n} x 6 IPv4/host names x 4 IPv6 literals x 5 boundary ports x stream/datagram x workers 1|2; fd number in {0,3,33,1023}",
    encodes=["hypercorn/config.py::Config._create_sockets"],
    stubs=["hypercorn.config.socket and hypercorn.config.os replaced by recorders (no real sockets, no filesystem)"],
)
def bind_parsing(shape: int, hi: int, pi: int, dgram: bool, workers: int, fdn: int) -> bool:
    """
    pre: DOM(bind_parsing, shape=shape, hi=hi, pi=pi, dgram=dgram, workers=workers, fdn=fdn)
    post: _
    """
    enter()
    shape = conc(shape, 0, 5)
    hi = conc(hi, 0, 5)
    port = _PORTS[conc(pi, 0, 4)]
    dgram = True if dgram else False
    workers = conc(workers, 1, 2)
    type_ = _socket.SOCK_DGRAM if dgram else _socket.SOCK_STREAM
    fake = _FakeSocketModule()
    fos = _FakeOS()
    want_fd = None
    if shape == 0:
        host = _HOSTS4[hi]
        bind = f"{host}:{port}"
        want = (_socket.AF_INET, (host, port))
    elif shape == 1:
        host = _HOSTS4[hi]
        bind = host
        want = (_socket.AF_INET, (host, 8000))
        if host == "1":
            return done(True, skipped="a bare number is ambiguous")
    elif shape == 2:
        host = _HOSTS6[hi % 4]
        bind = f"[{host}]:{port}"
        want = (_socket.AF_INET6, (host, port))
    elif shape == 3:
        host = _HOSTS6[hi % 4]
        if host in ("1:2",) or host.rsplit(":", 1)[-1].isdigit():
            return done(True, skipped="a bracketed address without port whose last group is numeric is ambiguous by construction")
        bind = f"[{host}]"
        want = (_socket.AF_INET6, (host, 8000))
    elif shape == 4:
        path = ["/tmp/h.sock", "rel.sock", "/a:b/c.sock"][hi % 3]
        bind = "unix:" + path
        want = (_socket.AF_UNIX, path)
    else:
        fdn = [0, 3, 33, 1023][conc(fdn, 0, 3)]
        fake.fd_types[fdn] = type_
        bind = "fd://" + str(fdn)
        want = None
        want_fd = fdn
    saved_socket, saved_os = hconfig.socket, hconfig.os
    hconfig.socket = fake  # type: ignore
    hconfig.os = fos  # type: ignore
    try:
        cfg = Config()
        cfg.workers = workers
        socks = cfg._create_sockets([bind], type_)
    finally:
        hconfig.socket, hconfig.os = saved_socket, saved_os
    ok = len(socks) == 1 and len(fake.created) == 1
    s = socks[0]
    if want_fd is not None:
        ok = ok and s.fileno_ == want_fd and s.bound is None
    else:
        ok = ok and s.family == want[0] and s.type == type_ and s.bound == want[1]
    ok = ok and s.blocking is False
    ok = ok and (_socket.SOL_SOCKET, _socket.SO_REUSEADDR, 1) in s.opts
    return done(ok, bind=bind, dgram=dgram, workers=workers)


# ---------------------------------------------------------------- root_path and response headers


@harness(
    "C19",
    dom={"n": (0, 4), "c0": (0, 1), "c1": (0, 1), "c2": (0, 1), "c3": (0, 1)},
    witnesses=[{"n": 3, "c0": 0, "c1": 1, "c2": 0, "c3": 0}],
    budget=30,
    bounds="root_path setter for every string of <=4 characters over {'/', 'a'}",
    encodes=["hypercorn/config.py::Config.root_path"],
)
def root_path_normalised(n: int, c0: int, c1: int, c2: int, c3: int) -> bool:
    """
    pre: DOM(root_path_normalised, n=n, c0=c0, c1=c1, c2=c2, c3=c3)
    post: _
    """
    enter()
    n = conc(n, 0, 4)
    cs = (c0, c1, c2, c3)
    value = "".join("/a"[conc(cs[i], 0, 1)] for i in range(n))
    cfg = Config()
    cfg.root_path = value
    got = cfg.root_path
    ok = not got.endswith("/") and value.startswith(got) and set(value[len(got):]) <= {"/"}
    return done(ok, value=value, got=got)


_IMF = re.compile(rb"^(Mon|Tue|Wed|Thu|Fri|Sat|Sun), [0-3][0-9] (Jan|Feb|Mar|Apr|May|Jun|Jul|Aug|Sep|Oct|Nov|Dec) [0-9]{4} [0-2][0-9]:[0-5][0-9]:[0-6][0-9] GMT$")
_STAMPS = [0, 1, 59, 86399, 86400, 951782400, 951868799, 1078099199, 1078099200, 2147483647, 4102444800, 784111777, 1709164800.5]


@harness(
    "C19",
    dom={"date": "bool", "server": "bool", "alt": (0, 2), "proto": (0, 2), "ti": (0, len(_STAMPS) - 1)},
    witnesses=[{"date": True, "server": True, "alt": 2, "proto": 1, "ti": 5}],
    budget=60,
    bounds="response_headers for all switch combinations x 0..2 alt-svc values x protocol {h11,h2,h3} x 13 boundary timestamps (epoch, day/leap-day/century boundaries, 2038, 2100, fractional)",
    encodes=["hypercorn/config.py::Config.response_headers"],
    stubs=["hypercorn.config.time returns the chosen timestamp; format_date_time is the real stdlib function"],
)
def response_headers_wellformed(date: bool, server: bool, alt: int, proto: int, ti: int) -> bool:
    """
    pre: DOM(response_headers_wellformed, date=date, server=server, alt=alt, proto=proto, ti=ti)
    post: _
    """
    enter()
    date = True if date else False
    server = True if server else False
    alt = conc(alt, 0, 2)
    proto = ["h11", "h2", "h3"][conc(proto, 0, 2)]
    stamp = _STAMPS[conc(ti, 0, len(_STAMPS) - 1)]
    alts = ['h3=":443"; ma=3600', 'h3-29=":443"'][:alt]
    cfg = Config()
    cfg.include_date_header = date
    cfg.include_server_header = server
    cfg.alt_svc_headers = alts
    saved = hconfig.time
    hconfig.time = lambda: stamp  # type: ignore
    try:
        got = cfg.response_headers(proto)
    finally:
        hconfig.time = saved
    want_names = ([b"date"] if date else []) + ([b"server"] if server else []) + [b"alt-svc"] * alt
    ok = [n for n, v in got] == want_names
    for n, v in got:
        if n == b"date":
            ok = ok and _IMF.match(v) is not None
        elif n == b"server":
            ok = ok and v == b"hypercorn-" + proto.encode()
    ok = ok and [v for n, v in got if n == b"alt-svc"] == [a.encode() for a in alts]
    return done(ok, date=date, server=server, alt=alt, proto=proto, stamp=stamp)


# ---------------------------------------------------------------- settings whose value is not a scalar


class _QuietLogger(hconfig.Logger):
    pass


_SPECIAL = [
    ("logger_class", _QuietLogger),
    ("logconfig_dict", {"version": 1}),
    ("verify_mode", ssl.VerifyMode.CERT_REQUIRED),
    ("verify_flags", ssl.VerifyFlags.VERIFY_X509_STRICT),
    ("alpn_protocols", ["h2"]),
    ("server_names", ["a.example", "b.example"]),
]
_SPECIAL_PY = os.path.join(_FILEDIR, "special_settings.py")
with open(_SPECIAL_PY, "w", encoding="utf8") as _f:
    _f.write("import ssl\nfrom hypercorn.logging import Logger\n\n\nclass QuietLogger(Logger):\n    pass\n\n\nlogger_class = QuietLogger\n"
             "logconfig_dict = {'version': 1}\nverify_mode = ssl.VerifyMode.CERT_REQUIRED\nverify_flags = ssl.VerifyFlags.VERIFY_X509_STRICT\n"
             "alpn_protocols = ['h2']\nserver_names = ['a.example', 'b.example']\n")


@harness(
    "C19",
    dom={"si": (0, len(_SPECIAL) - 1), "route": (0, 4)},
    witnesses=[{"si": 0, "route": 2}, {"si": 2, "route": 3}],
    budget=60,
    bounds="6 settings whose values are classes, dicts, enums or lists x loader route {mapping, keywords, object, python file, -c file: on the command line}",
    encodes=["hypercorn/config.py::Config.from_object", "hypercorn/config.py::Config.from_pyfile", "hypercorn/config.py::Config.from_mapping", "hypercorn/__main__.py::_load_config"],
)
def special_settings_loaders(si: int, route: int) -> bool:
    """
    pre: DOM(special_settings_loaders, si=si, route=route)
    post: _
    """
    enter()
    name, value = _SPECIAL[conc(si, 0, len(_SPECIAL) - 1)]
    route = conc(route, 0, 4)
    if route == 0:
        cfg = Config.from_mapping({name: value})
    elif route == 1:
        cfg = Config.from_mapping(**{name: value})
    elif route == 2:
        o = _Obj()
        setattr(o, name, value)
        cfg = Config.from_object(o)
    elif route == 3:
        cfg = Config.from_pyfile(_SPECIAL_PY)
    else:
        cfg = run_main(["-c", "file:" + _SPECIAL_PY, "app:app"])
    got = getattr(cfg, name)
    if name == "logger_class":
        ok = isinstance(got, type) and got.__name__ in ("_QuietLogger", "QuietLogger") and got is not hconfig.Logger
    else:
        ok = got == value
    return done(ok, setting=name, route=["mapping", "keywords", "object", "pyfile", "cli file:"][route])


# ---------------------------------------------------------------- alt-svc from the QUIC sockets of *this* configuration only


class _QSock:
    def __init__(self, name) -> None:
        self._name = name

    def getsockname(self):
        return self._name


def _h3_alpn():
    try:
        from aioquic.h3.connection import H3_ALPN  # noqa: F401
    except ImportError:  # aioquic is not installed in this sandbox: only the constant is needed
        import sys
        import types

        pkg, h3, conn = types.ModuleType("aioquic"), types.ModuleType("aioquic.h3"), types.ModuleType("aioquic.h3.connection")
        conn.H3_ALPN = ["h3"]
        pkg.h3, h3.connection = h3, conn
        sys.modules.setdefault("aioquic", pkg)
        sys.modules.setdefault("aioquic.h3", h3)
        sys.modules.setdefault("aioquic.h3.connection", conn)
    from aioquic.h3.connection import H3_ALPN

    return list(H3_ALPN)


@harness(
    "C19",
    dom={"n1": (0, 2), "n2": (-1, 2), "p0": (0, 3), "p1": (0, 3), "explicit": "bool"},
    split={"n1": "each"},
    witnesses=[{"n1": 1, "n2": -1, "p0": 2, "p1": 1, "explicit": False}, {"n1": 2, "n2": 1, "p0": 0, "p1": 3, "explicit": True}],
    budget=60,
    bounds="a configuration whose QUIC sockets (0..2, ports from {1, 443, 4433, 65535}) are registered once or twice (second registration with 0..2 sockets), next to a second configuration and a default one created before and after: each advertises alt-svc for exactly its own current QUIC ports, explicit alt_svc_headers win",
    encodes=["hypercorn/config.py::Config._set_quic_addresses", "hypercorn/config.py::Config.response_headers"],
    stubs=["sockets are objects with getsockname(); aioquic's H3_ALPN constant is supplied when aioquic is not installed"],
)
def quic_alt_svc_isolation(n1: int, n2: int, p0: int, p1: int, explicit: bool) -> bool:
    """
    pre: DOM(quic_alt_svc_isolation, n1=n1, n2=n2, p0=p0, p1=p1, explicit=explicit)
    post: _
    """
    enter()
    n1 = conc(n1, 0, 2)
    n2 = conc(n2, -1, 2)
    explicit = True if explicit else False
    alpn = _h3_alpn()
    table = [1, 443, 4433, 65535]
    ports = [table[conc(p0, 0, 3)], table[conc(p1, 0, 3)]]
    before = Config()
    a = Config()
    b = Config()
    for c in (before, a, b):
        c.include_date_header = False
        c.include_server_header = False
    if explicit:
        a.alt_svc_headers = ['h3=":443"']
    a._set_quic_addresses([_QSock(("0.0.0.0", ports[i])) for i in range(n1)])
    current = ports[:n1]
    if n2 >= 0:
        a._set_quic_addresses([_QSock(("::", ports[1 - i], 0, 0)) for i in range(n2)])
        current = [ports[1 - i] for i in range(n2)]
    after = Config()
    after.include_date_header = False
    after.include_server_header = False

    def alt(c):
        return [v for n, v in c.response_headers("h2") if n == b"alt-svc"]

    want_a = [b'h3=":443"'] if explicit else [b'%s=":%d"; ma=3600' % (v.encode(), p) for v in alpn for p in current]
    why = ""
    got = alt(a)
    if got != want_a:
        why = f"configuration with QUIC ports {current} advertises {got!r}, expected {want_a!r}"
    for name, c in (("a second configuration", b), ("a configuration created earlier", before), ("a configuration created later", after)):
        if not why and alt(c):
            why = f"{name} without QUIC sockets advertises {alt(c)!r}"
    return done(why == "", sockets_first=n1, sockets_second=n2, ports=ports, explicit=explicit, why=why)
