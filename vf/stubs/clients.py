"""Independent client-side oracles: what the server wrote is parsed by client instances of
h11 / h2 / wsproto (never by hypercorn code).  All of this runs un-traced."""
from __future__ import annotations

from typing import Any, Dict, List, Optional, Tuple

import h11
import h2.config
import h2.connection
import h2.events
import h2.exceptions
import h2.settings
import wsproto
import wsproto.connection
import wsproto.events
import wsproto.extensions
import wsproto.frame_protocol

from vf.rt import NoTracing, is_tracing


def untraced(fn):
    def w(*a, **k):
        if is_tracing():
            from vf.seal import _conc

            with NoTracing():
                return fn(*[_conc(x) for x in a], **{n: _conc(v) for n, v in k.items()})
        return fn(*a, **k)

    w.__name__ = fn.__name__
    return w


# ------------------------------------------------------------------------- HTTP/1


def h1_request(method: str, target: bytes, headers: List[Tuple[bytes, bytes]], body: Optional[List[bytes]] = None,
               framing: str = "none", version: bytes = b"1.1") -> bytes:
    """Serialise one HTTP/1.x request by hand (h11's client cannot speak 1.0 or odd casings)."""
    lines = [method.encode() + b" " + target + b" HTTP/" + version]
    hs = list(headers)
    chunks = body or []
    if framing == "content-length":
        hs.append((b"Content-Length", str(sum(len(c) for c in chunks)).encode()))
    elif framing == "chunked":
        hs.append((b"Transfer-Encoding", b"chunked"))
    for n, v in hs:
        lines.append(n + b": " + v)
    out = b"\r\n".join(lines) + b"\r\n\r\n"
    if framing == "content-length":
        out += b"".join(chunks)
    elif framing == "chunked":
        for c in chunks:
            if c:
                out += b"%x\r\n" % len(c) + c + b"\r\n"
        out += b"0\r\n\r\n"
    return out


class H1Response:
    def __init__(self) -> None:
        self.status: Optional[int] = None
        self.headers: List[Tuple[bytes, bytes]] = []
        self.informational: List[Tuple[int, List[Tuple[bytes, bytes]]]] = []
        self.body = b""
        self.complete = False
        self.http_version = b""

    def __repr__(self) -> str:
        return f"<H1Response {self.status} {self.headers} body={self.body[:40]!r}({len(self.body)}) complete={self.complete}>"


@untraced
def h1_parse(data: bytes, requests: List[Tuple[str, bytes]], eof: bool = False):
    """Parse the server's byte stream as the responses to `requests` [(method, target)].
    Returns (responses, leftover/err, closed)."""
    conn = h11.Connection(h11.CLIENT)
    out: List[H1Response] = []
    err = None
    fed = False
    closed = False
    for method, target in requests:
        try:
            conn.send(h11.Request(method=method, target=target, headers=[(b"host", b"x")]))
            conn.send(h11.EndOfMessage())
        except h11.LocalProtocolError as e:
            err = "client cannot send another request: %r" % (e,)
            break
        if not fed:
            conn.receive_data(data)
            if eof:
                conn.receive_data(b"")
            fed = True
        r = H1Response()
        out.append(r)
        try:
            while True:
                ev = conn.next_event()
                if ev is h11.NEED_DATA or ev is h11.PAUSED:
                    break
                if isinstance(ev, h11.InformationalResponse):
                    r.informational.append((ev.status_code, [(bytes(n), bytes(v)) for n, v in ev.headers]))
                elif isinstance(ev, h11.Response):
                    r.status = ev.status_code
                    r.headers = [(bytes(n), bytes(v)) for n, v in ev.headers]
                    r.http_version = bytes(ev.http_version)
                elif isinstance(ev, h11.Data):
                    r.body += bytes(ev.data)
                elif isinstance(ev, h11.EndOfMessage):
                    r.complete = True
                    break
                elif isinstance(ev, h11.ConnectionClosed):
                    closed = True
                    break
        except h11.RemoteProtocolError as e:
            err = "server bytes do not parse: %r" % (e,)
            break
        if not r.complete:
            break
        if conn.our_state is h11.DONE and conn.their_state is h11.DONE:
            try:
                conn.start_next_cycle()
            except h11.LocalProtocolError:
                break
        else:
            break
    trailing = bytes(conn.trailing_data[0]) if err is None else b""
    return out, err, closed, trailing


# ------------------------------------------------------------------------- HTTP/2


class H2Stream:
    def __init__(self) -> None:
        self.headers: Optional[List[Tuple[bytes, bytes]]] = None
        self.informational: List[List[Tuple[bytes, bytes]]] = []
        self.trailers: Optional[List[Tuple[bytes, bytes]]] = None
        self.data = b""
        self.ended = 0
        self.reset: Optional[int] = None
        self.pushed: List[int] = []

    @property
    def status(self) -> Optional[int]:
        if self.headers is None:
            return None
        for n, v in self.headers:
            if n == b":status":
                return int(v)
        return None

    def __repr__(self) -> str:
        return f"<H2Stream status={self.status} data={len(self.data)} ended={self.ended} reset={self.reset}>"


class H2Client:
    """h2 client state machine; enforces flow control on what the server sends."""

    def __init__(self, initial_window: Optional[int] = None, max_frame: Optional[int] = None, auto_ack: bool = True,
                 enable_push: bool = False, upgrade: bool = False) -> None:
        with NoTracing():
            self.conn = h2.connection.H2Connection(config=h2.config.H2Configuration(client_side=True, header_encoding=None))
            settings: Dict[int, int] = {h2.settings.SettingCodes.ENABLE_PUSH: 1 if enable_push else 0}
            if initial_window is not None:
                settings[h2.settings.SettingCodes.INITIAL_WINDOW_SIZE] = initial_window
            if max_frame is not None:
                settings[h2.settings.SettingCodes.MAX_FRAME_SIZE] = max_frame
            self.conn.local_settings = h2.settings.Settings(client=True, initial_values=settings)
            self.streams: Dict[int, H2Stream] = {}
            self.terminated: Optional[int] = None
            self.errors: List[str] = []
            self.auto_ack = auto_ack
            self.unacked: Dict[int, int] = {}
            self.settings_acked = 0
            self.remote_settings: Dict[int, int] = {}
            self.events: List[Any] = []
            if upgrade:
                self.upgrade_settings = self.conn.initiate_upgrade_connection()
            else:
                self.conn.initiate_connection()

    @untraced
    def take(self) -> bytes:
        return self.conn.data_to_send()

    def _s(self, sid: int) -> H2Stream:
        return self.streams.setdefault(sid, H2Stream())

    @untraced
    def request(self, sid: int, method: bytes = b"GET", path: bytes = b"/", headers: Optional[List[Tuple[bytes, bytes]]] = None,
                end_stream: bool = True, authority: bytes = b"example.com", scheme: bytes = b"http", extra_pseudo=None) -> None:
        hs = [(b":method", method), (b":scheme", scheme), (b":authority", authority), (b":path", path)]
        if extra_pseudo:
            hs = [(b":method", method)] + list(extra_pseudo)
        hs += list(headers or [])
        self._s(sid)
        self.conn.send_headers(sid, hs, end_stream=end_stream)

    @untraced
    def data(self, sid: int, data: bytes, end_stream: bool = False) -> None:
        self.conn.send_data(sid, data, end_stream=end_stream)

    @untraced
    def window_update(self, sid: int, inc: int) -> None:
        self.conn.increment_flow_control_window(inc, sid if sid else None)

    @untraced
    def ack(self, sid: int, n: int) -> None:
        self.conn.acknowledge_received_data(n, sid)

    @untraced
    def ack_connection_only(self) -> int:
        """Give back, on the connection window only, everything received and not yet acknowledged."""
        n = sum(self.unacked.values())
        self.unacked.clear()
        if n:
            self.conn.increment_flow_control_window(n)
        return n

    @untraced
    def reset(self, sid: int, code: int = 8) -> None:
        self.conn.reset_stream(sid, code)
        self._s(sid).reset = code

    @untraced
    def settings(self, values: Dict[int, int]) -> None:
        self.conn.update_settings(values)

    @untraced
    def prioritize(self, sid: int, weight: int = 16, depends_on: int = 0, exclusive: bool = False) -> None:
        self.conn.prioritize(sid, weight=weight, depends_on=depends_on, exclusive=exclusive)

    @untraced
    def ping(self, payload: bytes = b"12345678") -> None:
        self.conn.ping(payload)

    @untraced
    def feed(self, data: bytes) -> None:
        if not data or self.terminated is not None and not data:
            return
        try:
            events = self.conn.receive_data(data)
        except h2.exceptions.ProtocolError as e:  # includes FlowControlError, FrameTooLargeError
            self.errors.append(type(e).__name__ + ": " + str(e))
            return
        for ev in events:
            self.events.append(ev)
            if isinstance(ev, h2.events.ResponseReceived):
                self._s(ev.stream_id).headers = [(bytes(n), bytes(v)) for n, v in ev.headers]
            elif isinstance(ev, h2.events.InformationalResponseReceived):
                self._s(ev.stream_id).informational.append([(bytes(n), bytes(v)) for n, v in ev.headers])
            elif isinstance(ev, h2.events.TrailersReceived):
                self._s(ev.stream_id).trailers = [(bytes(n), bytes(v)) for n, v in ev.headers]
            elif isinstance(ev, h2.events.DataReceived):
                st = self._s(ev.stream_id)
                st.data += bytes(ev.data)
                if self.auto_ack and ev.flow_controlled_length:
                    try:
                        self.conn.acknowledge_received_data(ev.flow_controlled_length, ev.stream_id)
                    except h2.exceptions.ProtocolError:
                        pass
                else:
                    self.unacked[ev.stream_id] = self.unacked.get(ev.stream_id, 0) + ev.flow_controlled_length
            elif isinstance(ev, h2.events.StreamEnded):
                self._s(ev.stream_id).ended += 1
            elif isinstance(ev, h2.events.StreamReset):
                self._s(ev.stream_id).reset = int(ev.error_code)
            elif isinstance(ev, h2.events.PushedStreamReceived):
                self._s(ev.parent_stream_id).pushed.append(ev.pushed_stream_id)
                self._s(ev.pushed_stream_id)
            elif isinstance(ev, h2.events.ConnectionTerminated):
                self.terminated = int(ev.error_code)
            elif isinstance(ev, h2.events.SettingsAcknowledged):
                self.settings_acked += 1
            elif isinstance(ev, h2.events.RemoteSettingsChanged):
                for k, ch in ev.changed_settings.items():
                    self.remote_settings[int(k)] = ch.new_value


# ------------------------------------------------------------------------- WebSocket


WS_KEY = b"dGhlIHNhbXBsZSBub25jZQ=="
WS_ACCEPT = b"s3pPLMBiTxaQ9kYGzzhZRbK+xOo="


class WSClient:
    """wsproto framing client (post-handshake).  The HTTP part of the handshake is done by
    the caller (h1 bytes or h2 extended CONNECT); `deflate` enables permessage-deflate."""

    def __init__(self, deflate: bool = False) -> None:
        with NoTracing():
            exts = [wsproto.extensions.PerMessageDeflate()] if deflate else []
            self.exts = exts
            self._conn = None  # built on first use: wsproto keeps only extensions that are enabled at construction
            self.messages: List[Tuple[str, Any]] = []  # ("text"|"bytes", payload) complete messages
            self.pongs: List[bytes] = []
            self.pings: List[bytes] = []
            self.close: Optional[Tuple[int, Optional[str]]] = None
            self._partial: Optional[list] = None
            self.errors: List[str] = []

    @property
    def conn(self):
        if self._conn is None:
            with NoTracing():
                self._conn = wsproto.connection.Connection(wsproto.connection.ConnectionType.CLIENT, self.exts)
        return self._conn

    @untraced
    def offer(self) -> bytes:
        return b", ".join(e.offer().encode() if isinstance(e.offer(), str) else e.offer() for e in self.exts if e.offer())

    @untraced
    def finalize(self, accepted: Optional[bytes]) -> None:
        if accepted:
            for e in self.exts:
                for part in accepted.decode().split(","):
                    if part.strip().split(";")[0].strip() == e.name:
                        e.finalize(part.strip())

    @untraced
    def send_text(self, text: str, finished: bool = True) -> bytes:
        return self.conn.send(wsproto.events.TextMessage(data=text, message_finished=finished))

    @untraced
    def send_bytes(self, data: bytes, finished: bool = True) -> bytes:
        return self.conn.send(wsproto.events.BytesMessage(data=data, message_finished=finished))

    @untraced
    def send_ping(self, payload: bytes = b"") -> bytes:
        return self.conn.send(wsproto.events.Ping(payload=payload))

    @untraced
    def send_close(self, code: Optional[int] = 1000, reason: Optional[str] = None) -> bytes:
        if code is None:
            # a close frame with an empty payload (no status code)
            return b"\x88\x80\x00\x00\x00\x00"
        return self.conn.send(wsproto.events.CloseConnection(code=code, reason=reason))

    @untraced
    def feed(self, data: bytes) -> None:
        if not data:
            return
        try:
            self.conn.receive_data(data)
            for ev in self.conn.events():
                if isinstance(ev, (wsproto.events.TextMessage, wsproto.events.BytesMessage)):
                    kind = "text" if isinstance(ev, wsproto.events.TextMessage) else "bytes"
                    if self._partial is None:
                        self._partial = [kind, ev.data]
                    else:
                        self._partial[1] += ev.data
                    if ev.message_finished:
                        self.messages.append((self._partial[0], self._partial[1]))
                        self._partial = None
                elif isinstance(ev, wsproto.events.Pong):
                    self.pongs.append(bytes(ev.payload))
                elif isinstance(ev, wsproto.events.Ping):
                    self.pings.append(bytes(ev.payload))
                elif isinstance(ev, wsproto.events.CloseConnection):
                    self.close = (ev.code, ev.reason)
        except Exception as e:  # noqa: BLE001
            self.errors.append(repr(e))


def ws_h1_handshake(path: bytes = b"/ws", subprotocols: Optional[bytes] = None, extensions: Optional[bytes] = None,
                    extra: Optional[List[Tuple[bytes, bytes]]] = None, key: bytes = WS_KEY, version: bytes = b"13") -> bytes:
    hs = [(b"Host", b"example.com"), (b"Upgrade", b"websocket"), (b"Connection", b"Upgrade"),
          (b"Sec-WebSocket-Key", key), (b"Sec-WebSocket-Version", version)]
    if subprotocols:
        hs.append((b"Sec-WebSocket-Protocol", subprotocols))
    if extensions:
        hs.append((b"Sec-WebSocket-Extensions", extensions))
    hs += list(extra or [])
    return h1_request("GET", path, hs)


@untraced
def split_h1_head(data: bytes):
    """(status, headers, rest) of the first response head in data, or None."""
    idx = data.find(b"\r\n\r\n")
    if idx < 0:
        return None
    head = data[:idx].split(b"\r\n")
    parts = head[0].split(b" ", 2)
    status = int(parts[1])
    headers = []
    for line in head[1:]:
        n, _, v = line.partition(b":")
        headers.append((n.strip().lower(), v.strip()))
    return status, headers, data[idx + 4:]


class H2FrameObserver:
    """Frame-level reader of what an HTTP/2 server wrote (hyperframe + hpack only, no state
    machine), for sessions in which the client sends frames that h2's client API refuses."""

    def __init__(self) -> None:
        with NoTracing():
            import hpack

            self.decoder = hpack.Decoder()
            self.buf = b""
            self.streams: Dict[int, H2Stream] = {}
            self.goaway: Optional[int] = None
            self.errors: List[str] = []
            self._hdr_sid: Optional[int] = None
            self._hdr_block = b""
            self._hdr_end_stream = False
            self.frames: List[str] = []
            self.window_updates: Dict[int, int] = {}

    def _s(self, sid: int) -> H2Stream:
        return self.streams.setdefault(sid, H2Stream())

    @untraced
    def feed(self, data: bytes) -> None:
        import hyperframe.frame as hf

        self.buf += data
        while len(self.buf) >= 9:
            try:
                frame, length = hf.Frame.parse_frame_header(memoryview(self.buf[:9]))
            except Exception as e:  # noqa: BLE001
                self.errors.append("unparseable frame header: %r" % (e,))
                self.buf = b""
                return
            if len(self.buf) < 9 + length:
                return
            body = self.buf[9:9 + length]
            self.buf = self.buf[9 + length:]
            try:
                frame.parse_body(memoryview(body))
            except Exception as e:  # noqa: BLE001
                self.errors.append("unparseable frame body: %r" % (e,))
                continue
            self.frames.append(type(frame).__name__)
            if isinstance(frame, (hf.HeadersFrame, hf.ContinuationFrame)):
                if isinstance(frame, hf.HeadersFrame):
                    self._hdr_sid = frame.stream_id
                    self._hdr_block = b""
                    self._hdr_end_stream = "END_STREAM" in frame.flags
                self._hdr_block += frame.data
                if "END_HEADERS" in frame.flags:
                    try:
                        headers = [(bytes(n) if isinstance(n, bytes) else n.encode(), bytes(v) if isinstance(v, bytes) else v.encode())
                                   for n, v in self.decoder.decode(self._hdr_block, raw=True)]
                    except Exception as e:  # noqa: BLE001
                        self.errors.append("hpack: %r" % (e,))
                        headers = []
                    st = self._s(self._hdr_sid)
                    status = [v for n, v in headers if n == b":status"]
                    if st.headers is None or (st.status is not None and st.status < 200):
                        if status and status[0].startswith(b"1"):
                            st.informational.append(headers)
                        else:
                            st.headers = headers
                    else:
                        st.trailers = headers
                    if self._hdr_end_stream:
                        st.ended += 1
            elif isinstance(frame, hf.DataFrame):
                st = self._s(frame.stream_id)
                st.data += bytes(frame.data)
                if "END_STREAM" in frame.flags:
                    st.ended += 1
            elif isinstance(frame, hf.RstStreamFrame):
                self._s(frame.stream_id).reset = int(frame.error_code)
            elif isinstance(frame, hf.GoAwayFrame):
                self.goaway = int(frame.error_code)
            elif isinstance(frame, hf.WindowUpdateFrame):
                self.window_updates[frame.stream_id] = self.window_updates.get(frame.stream_id, 0) + int(frame.window_increment)
