"""C02 response delivery fidelity and legal framing."""
from __future__ import annotations

import h11

import hypercorn.protocol.h11 as hh11
import hypercorn.protocol.h2 as hh2
import hypercorn.utils as hutils
from hypercorn.protocol.events import Body, EndBody, InformationalResponse, Response, StreamClosed, Trailers
from hypercorn.protocol.h11 import H11Protocol
from hypercorn.protocol.h2 import H2Protocol
from hypercorn.typing import ConnectionState
from hypercorn.utils import suppress_body

from vf.rt import DOM, conc, done, enter, harness
from vf.stubs.b import NOW, Rig, make_config, recording_app
from vf.stubs.sched import Sched, TaskGroup, WorkerContext

METHODS = ["GET", "HEAD", "POST", "OPTIONS"]
VERSIONS = ["1.0", "1.1", "2"]


def ref_suppress(method: str, status: int) -> bool:
    """RFC 9110 6.4.1 / 15: no content for HEAD, 1xx, 204, 304."""
    if method == "HEAD":
        return True
    if 100 <= status <= 199:
        return True
    return status == 204 or status == 304


@harness(
    "C02",
    dom={"mi": (0, 3), "status": (None, None)},
    split={"mi": "each"},
    witnesses=[{"mi": 0, "status": 200}, {"mi": 1, "status": 200}, {"mi": 0, "status": 204}],
    budget=30,
    bounds="suppress_body(method, status) for 4 methods and every integer status",
    encodes=["hypercorn/utils.py::suppress_body"],
)
def suppress_body_table(mi: int, status: int) -> bool:
    """
    pre: DOM(suppress_body_table, mi=mi, status=status)
    post: _
    """
    enter()
    m = METHODS[conc(mi, 0, 3)]
    return done(suppress_body(m, status) == ref_suppress(m, status), method=m, status=status)


def _body(n: int) -> bytes:
    return b"xyz"[:n]


@harness(
    "C02",
    dom={"status": (200, 999), "mi": (0, 3), "vi": (0, 2), "te": "bool", "trailers": "bool", "k": (1, 2),
         "l0": (0, 1), "l1": (0, 1), "l2": (0, 1), "hk": (0, 1)},
    thorough_dom={"k": (1, 3), "l0": (0, 2), "l1": (0, 2), "l2": (0, 2), "hk": (0, 2)},
    split={"mi": "each", "vi": "each"},
    thorough_split={"mi": "each", "vi": "each", "k": "each", "hk": "each"},
    witnesses=[{"status": 200, "mi": 0, "vi": 1, "te": False, "trailers": False, "k": 2, "l0": 1, "l1": 1, "l2": 0, "hk": 1},
               {"status": 204, "mi": 2, "vi": 2, "te": True, "trailers": True, "k": 1, "l0": 1, "l1": 0, "l2": 0, "hk": 0}],
    budget={"quick": 100, "thorough": 400},
    bounds="HTTPStream.app_send: every final status 200..999, 4 methods, HTTP/1.0|1.1|2, 1..2 (thorough 3) body chunks each empty or not (thorough length 0..2), 0..1 (thorough 2) app headers, te:trailers present or not, trailers announced or not",
    encodes=["hypercorn/protocol/http_stream.py::HTTPStream.app_send", "hypercorn/protocol/http_stream.py::HTTPStream._send_closed", "hypercorn/utils.py::suppress_body", "hypercorn/utils.py::build_and_validate_headers"],
    stubs=["stream `send` callback = recorder", "task group = tier-B scheduler with the real asyncio _handle"],
)
def http_app_send_response(status: int, mi: int, vi: int, te: bool, trailers: bool, k: int, l0: int, l1: int, l2: int, hk: int) -> bool:
    """
    pre: DOM(http_app_send_response, status=status, mi=mi, vi=vi, te=te, trailers=trailers, k=k, l0=l0, l1=l1, l2=l2, hk=hk)
    post: _
    """
    enter()
    method = METHODS[conc(mi, 0, 3)]
    version = VERSIONS[conc(vi, 0, 2)]
    k = conc(k, 1, 3)
    hk = conc(hk, 0, 2)
    lens = [conc((l0, l1, l2)[i], 0, 2) for i in range(k)]
    te = True if te else False
    trailers = True if trailers else False
    rig = Rig("http")
    rig.set_app(recording_app(rig))
    req_headers = [(b"host", b"h")] + ([(b"te", b"trailers")] if te else [])
    rig.request(method, b"/p", version, req_headers)
    app_headers = [(b"x-a", b"1"), (b"x-a", b"2")][:hk]
    errs = []
    start = {"type": "http.response.start", "status": status, "headers": list(app_headers)}
    if trailers:
        start["trailers"] = True
    errs.append(rig.app_send(start))
    for i, n in enumerate(lens):
        errs.append(rig.app_send({"type": "http.response.body", "body": _body(n), "more_body": i < k - 1}))
    if trailers:
        errs.append(rig.app_send({"type": "http.response.trailers", "headers": [(b"x-t", b"v")], "more_trailers": False}))
    # --- reference
    want = [("Response", status, list(app_headers))]
    if not ref_suppress(method, status):
        for n in lens:
            if n > 0:
                want.append(("Body", _body(n)))
    unexpected_trailers = False
    if trailers:
        if version == "2":
            if te:
                want.append(("Trailers", [(b"x-t", b"v")]))
        else:
            unexpected_trailers = True  # extension not offered on HTTP/1: the message is refused
    if not unexpected_trailers:
        want += [("EndBody",), ("StreamClosed",)]
    got = []
    for e in rig.events:
        if isinstance(e, Response):
            got.append(("Response", e.status_code, e.headers))
        elif isinstance(e, Body):
            got.append(("Body", e.data))
        elif isinstance(e, EndBody):
            got.append(("EndBody",))
        elif isinstance(e, StreamClosed):
            got.append(("StreamClosed",))
        elif isinstance(e, Trailers):
            got.append(("Trailers", e.headers))
        else:
            got.append(("?", repr(e)))
    ok = got == want
    if unexpected_trailers:
        ok = ok and errs[-1] is not None and all(e is None for e in errs[:-1])
    else:
        ok = ok and all(e is None for e in errs)
        ok = ok and rig.log.count("access") == 1
    return done(ok, status=status, method=method, version=version, te=te, trailers=trailers, lens=lens, hk=hk)


class _RecH11:
    """Recorder standing in for h11.Connection inside H11Protocol.stream_send."""

    our_state = h11.SEND_RESPONSE
    their_state = h11.DONE
    they_are_waiting_for_100_continue = False
    trailing_data = (b"", False)

    def __init__(self) -> None:
        self.sent = []

    def send(self, event):
        self.sent.append(event)
        return b"<%d>" % len(self.sent)

    def start_next_cycle(self) -> None:
        pass


def _h11_proto(config, sched=None):
    s = sched or Sched()
    ctx = WorkerContext(s)
    tg = TaskGroup(s, None)
    sent = []

    async def send(ev):
        sent.append(ev)

    p = H11Protocol(None, config, ctx, tg, ConnectionState({}), False, None, None, send)
    return p, s, sent


_STAT = [100, 103, 199, 200, 204, 304, 404, 500, 999]


@harness(
    "C02",
    dom={"si": (-1, len(_STAT) - 1), "status": (100, 999), "served": (0, None), "limit": (None, None), "hk": (0, 2), "date": "bool", "server": "bool", "alt": (0, 2)},
    split={"si": "each", "status": 8},
    witnesses=[{"si": 3, "status": 200, "served": 1, "limit": 1000, "hk": 1, "date": True, "server": True, "alt": 1},
               {"si": -1, "status": 201, "served": 5, "limit": 5, "hk": 0, "date": False, "server": True, "alt": 0}],
    budget=100,
    bounds="H11Protocol.stream_send(Response): (si=-1) every status 100..999 with default server headers, or (si>=0) 9 boundary statuses x all server-header switches x 0..2 app headers x 0..2 alt-svc values; served-count and keep_alive_max_requests are unbounded symbolic ints throughout",
    encodes=["hypercorn/protocol/h11.py::H11Protocol.stream_send", "hypercorn/protocol/h11.py::H11Protocol._send_h11_event", "hypercorn/config.py::Config.response_headers"],
    stubs=["h11.Connection replaced by a recorder of the events handed to it", "wall clock pinned"],
)
def h11_response_headers(si: int, status: int, served: int, limit: int, hk: int, date: bool, server: bool, alt: int) -> bool:
    """
    pre: DOM(h11_response_headers, si=si, status=status, served=served, limit=limit, hk=hk, date=date, server=server, alt=alt)
    post: _
    """
    enter()
    si = conc(si, -1, len(_STAT) - 1)
    if si >= 0:
        status = _STAT[si]
        hk = conc(hk, 0, 2)
        alt = conc(alt, 0, 2)
        date = True if date else False
        server = True if server else False
    else:
        status = conc(status, 100, 999)
        hk, alt, date, server = 1, 0, True, True
    alts = ['h3=":443"; ma=1', 'h3-29=":443"'][:alt]
    config = make_config(include_date_header=date, include_server_header=server, alt_svc_headers=alts, keep_alive_max_requests=limit)
    p, s, sent = _h11_proto(config)
    rec = _RecH11()
    p.connection = rec
    p.keep_alive_requests = served
    app_headers = [(b"x-a", b"1"), (b"content-length", b"3")][:hk]
    t = s.spawn(p.stream_send(Response(stream_id=1, headers=list(app_headers), status_code=status)), "ss")
    s.run()
    if not t.done or t.exc is not None or len(rec.sent) != 1:
        return done(False, why="stream_send did not hand exactly one event to h11")
    ev = rec.sent[0]
    want = list(app_headers)
    if date:
        want.append((b"date", b"Sun, 06 Nov 1994 08:49:37 GMT"))
    if server:
        want.append((b"server", b"hypercorn-h11"))
    for a in alts:
        want.append((b"alt-svc", a.encode()))
    if status >= 200 and served >= limit:
        want.append((b"connection", b"close"))
    got = [(bytes(n), bytes(v)) for n, v in ev.headers.raw_items()] if hasattr(ev.headers, "raw_items") else list(ev.headers)
    ok = got == want and ev.status_code == status
    ok = ok and (isinstance(ev, h11.InformationalResponse) if status < 200 else isinstance(ev, h11.Response))
    return done(ok, si=si, status=status, served=served, limit=limit, hk=hk, date=date, server=server, alt=alt)


class _RecH2:
    def __init__(self) -> None:
        self.calls = []

    def send_headers(self, stream_id, headers, end_stream=False):
        self.calls.append(("headers", stream_id, list(headers)))

    def data_to_send(self):
        return b""


@harness(
    "C02",
    dom={"status": (100, 999), "hk": (0, 2), "date": "bool", "server": "bool", "info": "bool"},
    split={"status": 16},
    witnesses=[{"status": 200, "hk": 2, "date": True, "server": True, "info": False}],
    budget=100,
    bounds="H2Protocol.stream_send(Response|InformationalResponse): every status 100..999 (1xx for informational), 0..2 app headers, server-header switches",
    encodes=["hypercorn/protocol/h2.py::H2Protocol.stream_send", "hypercorn/config.py::Config.response_headers"],
    stubs=["h2 connection replaced by a recorder", "wall clock pinned"],
)
def h2_response_headers(status: int, hk: int, date: bool, server: bool, info: bool) -> bool:
    """
    pre: DOM(h2_response_headers, status=status, hk=hk, date=date, server=server, info=info)
    post: _
    """
    enter()
    status = conc(status, 100, 999)
    if status % 50 in (0, 4, 49):
        hk = conc(hk, 0, 2)
        date = True if date else False
        server = True if server else False
    else:  # the switches do not interact with the status: full product only on boundary statuses
        hk, date, server = 1, True, True
    if info and status >= 200:
        return done(True, skipped="informational responses are 1xx")
    config = make_config(include_date_header=date, include_server_header=server)
    s = Sched()
    ctx = WorkerContext(s)
    sent = []

    async def send(ev):
        sent.append(ev)

    p = H2Protocol(None, config, ctx, TaskGroup(s, None), ConnectionState({}), False, None, None, send)
    rec = _RecH2()
    p.connection = rec
    app_headers = [(b"x-a", b"1"), (b"x-a", b"2")][:hk]
    cls = InformationalResponse if info else Response
    t = s.spawn(p.stream_send(cls(stream_id=3, headers=list(app_headers), status_code=status)), "ss")
    s.run()
    want = [(b":status", str(status).encode())] + list(app_headers)
    if date:
        want.append((b"date", b"Sun, 06 Nov 1994 08:49:37 GMT"))
    if server:
        want.append((b"server", b"hypercorn-h2"))
    ok = t.done and t.exc is None and rec.calls == [("headers", 3, want)]
    return done(ok, status=status, hk=hk, date=date, server=server, info=info)


# ------------------------------------------------------------------ delivery sessions (tier B, independent client parsers)

from vf.stubs.b import Conn, GatedApp  # noqa: E402
from vf.stubs.clients import H2Client, h1_parse, h1_request  # noqa: E402

from vf.rt import MODE as _MODE  # noqa: E402

_QUICK = _MODE["tier"] != "thorough"
S_STATUS = [200, 204, 304, 599] if _QUICK else [200, 201, 204, 304, 404, 500, 599]
S_CHUNKS = [[0], [1], [0, 1, 0], [16384, 16385], [70000], [1, 65536, 3], [5, 0, 5]]
S_HEADERS = ["none", "content-length", "repeated x-a", "content-type + x-b"]
_BLOB = bytes((i * 13 + 5) % 251 for i in range(70000))


def _resp_steps(status: int, hdr: int, chunks, suppressed_len: bool):
    total = sum(chunks)
    headers = []
    if hdr == 1:
        headers = [(b"content-length", str(total).encode())]
    elif hdr == 2:
        headers = [(b"x-a", b"1"), (b"x-a", b"2")]
    elif hdr == 3:
        headers = [(b"content-type", b"text/plain"), (b"x-b", b"v")]
    steps = ["recv_body", ("send", {"type": "http.response.start", "status": status, "headers": list(headers)})]
    pos = 0
    for i, n in enumerate(chunks):
        steps.append(("send", {"type": "http.response.body", "body": _BLOB[pos:pos + n], "more_body": i < len(chunks) - 1}))
        pos += n
    return steps, headers, _BLOB[:total]


_SERVER_OWN = (b"date", b"server", b"alt-svc", b"connection", b"transfer-encoding")


def _check_headers(got, app_headers) -> str:
    names = [(n.lower(), v) for n, v in got if not n.startswith(b":")]
    k = len(app_headers)
    if names[:k] != [(n.lower(), v) for n, v in app_headers]:
        return f"application headers not delivered first and in order: {names!r} vs {app_headers!r}"
    for n, v in names[k:]:
        if n not in _SERVER_OWN:
            return f"foreign header after the application's: {n!r}"
    return ""


@harness(
    "C02",
    dom={"si": (0, len(S_STATUS) - 1), "hi": (0, 3), "ci": (0, len(S_CHUNKS) - 1), "head": "bool", "v10": "bool"},
    split={"si": "each"},
    witnesses=[{"si": 0, "hi": 1, "ci": 3, "head": False, "v10": False}, {"si": 2, "hi": 0, "ci": 1, "head": False, "v10": True}, {"si": 0, "hi": 1, "ci": 4, "head": True, "v10": False}],
    budget={"quick": 150, "thorough": 600},
    per_path=120,
    bounds="HTTP/1 responses: 4 (thorough 7) statuses x 4 header lists (none, content-length, repeated names, two headers) x 7 chunkings (empty chunks, 1 byte, around 16384/65536, 70000) x GET/HEAD x HTTP/1.1/1.0, parsed by an independent h11 client",
    encodes=["hypercorn/protocol/h11.py::H11Protocol.stream_send", "hypercorn/protocol/h11.py::H11Protocol._send_h11_event", "hypercorn/protocol/http_stream.py::HTTPStream.app_send", "hypercorn/utils.py::suppress_body"],
    stubs=["tier B runtime"],
)
def h1_response_delivery(si: int, hi: int, ci: int, head: bool, v10: bool) -> bool:
    """
    pre: DOM(h1_response_delivery, si=si, hi=hi, ci=ci, head=head, v10=v10)
    post: _
    """
    enter()
    status = S_STATUS[conc(si, 0, len(S_STATUS) - 1)]
    hi = conc(hi, 0, 3)
    chunks = S_CHUNKS[conc(ci, 0, len(S_CHUNKS) - 1)]
    head = True if head else False
    v10 = True if v10 else False
    method = "HEAD" if head else "GET"
    no_body = ref_suppress(method, status)
    if status in (204, 304) and hi == 1 and sum(chunks) > 0:
        return done(True, skipped="a content-length on a bodiless status is the application's own inconsistency")
    if _QUICK and v10 and hi in (2, 3):
        return done(True, skipped="quick tier: HTTP/1.0 with two of the four header lists")
    steps, app_headers, body = _resp_steps(status, hi, chunks, no_body)
    conn = Conn(None, make_config())
    app = GatedApp(conn.ctx, lambda scope, idx: steps, gated=False)
    conn.proto.app = app
    conn.proto.protocol.app = app
    conn.feed(h1_request(method, b"/r", [(b"Host", b"example.com")], version=b"1.0" if v10 else b"1.1"))
    if v10 or not conn.server_closed:
        pass
    resps, err, closed, trailing = h1_parse(conn.out.peek(), [(method, b"/r")], eof=conn.server_closed)
    why = ""
    if err or len(resps) != 1:
        why = f"{err} {resps!r}"
    else:
        r = resps[0]
        if r.status != status:
            why = f"status {r.status} != {status}"
        elif not r.complete:
            why = f"response not complete: {r!r}"
        elif r.body != (b"" if no_body else body):
            why = f"body of {len(r.body)} bytes, expected {0 if no_body else len(body)}"
        else:
            why = _check_headers(r.headers, app_headers)
        if not why and trailing:
            why = f"bytes after the end of the response: {trailing[:40]!r}"
    if not why and app.instances and app.instances[0].send_errors:
        why = f"send raised {app.instances[0].send_errors!r}"
    if not why and conn.sched.errors:
        why = "exception escaped a task: %r" % (conn.sched.errors[0],)
    return done(why == "", status=status, headers=S_HEADERS[hi], chunks=chunks, method=method, version="1.0" if v10 else "1.1", why=why)


PACES = ["acknowledges stream and connection at once", "acknowledges on the connection only (huge stream windows)", "2000-byte initial window, acknowledges at once", "acknowledges only when the server has stalled",
         "initial window exactly the size of the body (0 for a bodiless response), never acknowledges"]


VARIANTS = ["h2 via ALPN", "h2c upgrade", "h2c upgrade with an empty HTTP2-Settings value", "h2c upgrade without an HTTP2-Settings header",
            "trailers to a client that sent te: trailers", "trailers to a client without te", "PRIORITY frame for the stream in an earlier read than its HEADERS",
            "PRIORITY frame for a stream that never opens"]


@harness(
    "C02",
    dom={"si": (0, len(S_STATUS) - 1), "hi": (0, 3), "ci": (0, len(S_CHUNKS) - 1), "head": "bool", "pace": (0, 4), "var": (0, len(VARIANTS) - 1)},
    split={"pace": "each", "ci": "each"},
    thorough_split={"pace": "each", "ci": "each", "var": "each"},
    witnesses=[{"si": 0, "hi": 1, "ci": 4, "head": False, "pace": 1, "var": 0}, {"si": 3, "hi": 1, "ci": 5, "head": True, "pace": 3, "var": 0},
               {"si": 0, "hi": 0, "ci": 3, "head": False, "pace": 2, "var": 4}, {"si": 0, "hi": 1, "ci": 2, "head": False, "pace": 0, "var": 6},
               {"si": 0, "hi": 1, "ci": 4, "head": False, "pace": 2, "var": 7}, {"si": 0, "hi": 1, "ci": 1, "head": False, "pace": 0, "var": 2},
               {"si": 1, "hi": 0, "ci": 0, "head": False, "pace": 0, "var": 3}, {"si": 0, "hi": 1, "ci": 3, "head": False, "pace": 4, "var": 1}],
    budget={"quick": 200, "thorough": 900},
    per_path=120,
    bounds="HTTP/2 responses: 4 (thorough 7) statuses x 4 header lists x 7 chunkings x GET/HEAD x 5 client paces (acks both levels, connection level only, 2000-byte initial window, acks only when stalled, window exactly the body size and no acks at all) x 8 session variants (ALPN; h2c upgrade with HTTP2-Settings sent / empty / absent; trailers to a client that sent te: trailers / that did not; a PRIORITY frame in an earlier read than the HEADERS / for a stream that never opens), parsed by an independent h2 client that enforces flow control",
    encodes=["hypercorn/protocol/h2.py::H2Protocol.stream_send", "hypercorn/protocol/h2.py::H2Protocol._send_data", "hypercorn/protocol/h2.py::H2Protocol.send_task", "hypercorn/protocol/h2.py::H2Protocol._window_updated",
             "hypercorn/protocol/h2.py::H2Protocol.initiate", "hypercorn/protocol/http_stream.py::HTTPStream.app_send"],
    stubs=["tier B runtime"],
)
def h2_response_delivery(si: int, hi: int, ci: int, head: bool, pace: int, var: int) -> bool:
    """
    pre: DOM(h2_response_delivery, si=si, hi=hi, ci=ci, head=head, pace=pace, var=var)
    post: _
    """
    enter()
    status = S_STATUS[conc(si, 0, len(S_STATUS) - 1)]
    hi = conc(hi, 0, 3)
    chunks = S_CHUNKS[conc(ci, 0, len(S_CHUNKS) - 1)]
    head = True if head else False
    pace = conc(pace, 0, 4)
    var = conc(var, 0, len(VARIANTS) - 1)
    h2c = var in (1, 2, 3)
    h2cs = {2: 1, 3: 2}.get(var, 0)
    tr = {4: 1, 5: 2}.get(var, 0)
    prio = {6: 1, 7: 2}.get(var, 0)
    if h2cs and pace != 0:
        return done(True, skipped="empty / absent HTTP2-Settings: h2c upgrades with the default windows only")
    if tr and _QUICK and (head or hi not in (0, 1)):
        return done(True, skipped="quick tier: trailers with GET and two of the header lists")
    if prio and _QUICK and (head or hi != 1):
        return done(True, skipped="quick tier: PRIORITY frames with GET and a content-length")
    method = b"HEAD" if head else b"GET"
    no_body = ref_suppress(method.decode(), status)
    if tr and (h2c or (_QUICK and (head or hi not in (0, 1)))):
        return done(True, skipped="trailers: not over h2c (the upgrade request cannot carry te through the h2 client library); quick tier: GET with two of the header lists")
    if status in (204, 304) and hi == 1 and sum(chunks) > 0:
        return done(True, skipped="a content-length on a bodiless status is the application's own inconsistency")
    if head and h2c:
        return done(True, skipped="the h2 client library cannot know that the upgraded stream 1 was a HEAD request and rejects its content-length")
    if _QUICK and ((h2c and pace != 0) or (head and hi != 1)):
        return done(True, skipped="quick tier: h2c only with the eager client, HEAD only with a content-length")
    steps, app_headers, body = _resp_steps(status, hi, chunks, no_body)
    steps = ["recv"] + steps[1:]
    TRAILERS = [(b"x-checksum", b"abc123"), (b"x-t", b"2")]
    if tr:
        steps[1][1]["trailers"] = True
        steps.append(("send", {"type": "http.response.trailers", "headers": list(TRAILERS), "more_trailers": False}))
    window = {0: None, 1: 1000000, 2: 2000, 3: None, 4: 0 if no_body else len(body)}[pace]
    client = H2Client(initial_window=window, auto_ack=pace in (0, 2), upgrade=h2c)
    if pace == 4 and not no_body and len(body) > 60000:
        client.window_update(0, 100000)  # credit for the whole body up front on the connection level too
    conn = Conn(None, make_config(), alpn=None if h2c else "h2")
    app = GatedApp(conn.ctx, lambda scope, idx: steps, gated=False)
    conn.proto.app = app
    conn.proto.protocol.app = app
    if h2c:
        from vf.stubs.clients import split_h1_head

        settings_header = [(b"HTTP2-Settings", client.upgrade_settings)] if h2cs == 0 else ([(b"HTTP2-Settings", b"")] if h2cs == 1 else [])
        req = h1_request(method.decode(), b"/r", [(b"Host", b"example.com"), (b"Connection", b"Upgrade, HTTP2-Settings"), (b"Upgrade", b"h2c")] + settings_header)
        conn.feed(req)
        out = conn.take()
        hd = split_h1_head(out)
        if hd is None or hd[0] != 101:
            return done(False, why=f"h2c upgrade refused: {out[:60]!r}")
        conn.feed(client.take())
        client.feed(hd[2])
        client._s(1)
    else:
        if prio:
            # the PRIORITY frame travels in an earlier read than the request
            client.prioritize(1 if prio == 1 else 5, weight=32)
            conn.feed(client.take())
            client.feed(conn.take())
        client.request(1, method, b"/r", headers=[(b"te", b"trailers")] if tr == 1 else None, end_stream=True)
        conn.feed(client.take())
    for _ in range(120):
        client.feed(conn.take())
        if pace == 1:
            client.ack_connection_only()
        elif pace == 3:
            # acknowledge (both levels) only once the server has nothing more to say
            for sid, n in list(client.unacked.items()):
                if n:
                    client.ack(sid, n)
            client.unacked.clear()
        more = client.take()
        if not more:
            break
        conn.feed(more)
    client.feed(conn.take())
    st = client.streams.get(1)
    why = ""
    if client.errors:
        why = f"client-side protocol/flow-control error: {client.errors!r}"
    elif st is None or st.status != status:
        why = f"status {st.status if st else None} != {status}"
    elif st.ended != 1:
        why = f"end of stream signalled {st.ended} times (body {len(st.data)}/{0 if no_body else len(body)} bytes)"
    elif st.data != (b"" if no_body else body):
        why = f"body of {len(st.data)} bytes, expected {0 if no_body else len(body)}"
    else:
        why = _check_headers(st.headers, app_headers)
    if not why and tr == 1 and st.trailers != TRAILERS:
        why = f"trailers {st.trailers!r} reached a client that sent te: trailers, the application sent {TRAILERS!r}"
    if not why and tr != 1 and st.trailers:
        why = f"trailers {st.trailers!r} sent to a client that did not ask for them"
    if not why and app.instances and app.instances[0].send_errors:
        why = f"send raised {app.instances[0].send_errors!r}"
    if not why and app.instances and not app.instances[0].finished:
        why = f"application still blocked at step {app.instances[0].step}"
    if not why and conn.sched.errors:
        why = "exception escaped a task: %r" % (conn.sched.errors[0],)
    return done(why == "", status=status, headers=S_HEADERS[hi], chunks=chunks, method=method, pace=PACES[pace], variant=VARIANTS[var], why=why)
