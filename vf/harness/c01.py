"""C01 HTTP request delivery fidelity (scope and body reach the app exactly)."""
from __future__ import annotations

from typing import List, Optional, Tuple

from hypercorn.utils import filter_pseudo_headers

from vf.rt import DOM, MODE, conc, done, enter, harness
from vf.stubs.b import Conn, make_config
from vf.stubs.clients import H2Client, h1_parse, h1_request

HOST = (b"Host", b"example.com")


def ref_unquote(raw: bytes) -> str:
    """Independent percent-decoder (RFC 3986 2.1 + UTF-8 with replacement, as urllib documents)."""
    out = bytearray()
    i = 0
    hexd = b"0123456789abcdefABCDEF"
    while i < len(raw):
        c = raw[i]
        if c == 0x25 and i + 2 < len(raw) + 0 and i + 2 <= len(raw) - 1 + 0 and raw[i + 1] in hexd and raw[i + 2] in hexd:
            out.append(int(raw[i + 1:i + 3].decode(), 16))
            i += 3
        else:
            out.append(c)
            i += 1
    return bytes(out).decode("utf-8", "replace")


def ref_split_target(target: bytes) -> Tuple[bytes, bytes]:
    idx = target.find(b"?")
    if idx < 0:
        return target, b""
    return target[:idx], target[idx + 1:]


def _big(n: int) -> bytes:
    return bytes((i * 7 + 3) % 251 for i in range(n))


TEMPLATES = [
    dict(method="GET", target=b"/", headers=[HOST], version=b"1.1", framing="none", body=[]),
    dict(method="GET", target=b"/a%20b/%E2%82%AC%zz?x=1&y=%2F", headers=[HOST, (b"X-Mixed-Case", b"V1"), (b"x-mixed-case", b"v2"), (b"X-Empty", b"")],
         version=b"1.1", framing="none", body=[]),
    dict(method="POST", target=b"/p?", headers=[HOST, (b"Content-Type", b"text/plain")], version=b"1.1", framing="content-length", body=[b"hello"]),
    dict(method="PUT", target=b"/c", headers=[HOST], version=b"1.1", framing="chunked", body=[b"a", b"bc", b"def"]),
    dict(method="DELETE", target=b"/d?a?b", headers=[HOST, (b"Connection", b"close")], version=b"1.0", framing="none", body=[]),
    dict(method="OPTIONS", target=b"*", headers=[HOST], version=b"1.1", framing="none", body=[]),
    dict(method="POST", target=b"/one", headers=[HOST], version=b"1.1", framing="content-length", body=[b"x"]),
    dict(method="PATCH", target=b"/empty-body", headers=[HOST], version=b"1.1", framing="content-length", body=[]),
    # thorough-only (long)
    dict(method="POST", target=b"/big", headers=[HOST], version=b"1.1", framing="content-length", body=[_big(65537)]),
    dict(method="POST", target=b"/many", headers=[HOST], version=b"1.1", framing="chunked", body=[b"%02d" % i for i in range(13)]),
    dict(method="POST", target=b"/huge", headers=[HOST], version=b"1.0", framing="content-length", body=[_big(200000)]),
]
N_SHORT = 8


class Recorder:
    """late: the application starts reading only when the harness opens the gate.
    respond_first: the application starts its response (head + first half of the body)
    before it reads the request body - a streaming/echo style application."""

    def __init__(self, late: bool, conn_box: dict, respond_first: bool = False) -> None:
        self.instances: List[dict] = []
        self.late = late
        self.respond_first = respond_first
        self.conn_box = conn_box
        self.gate = None

    async def __call__(self, scope, receive, send, sync_spawn=None, call_soon=None):
        inst = {"scope": scope, "msgs": [], "done": False}
        self.instances.append(inst)
        if self.respond_first:
            await send({"type": "http.response.start", "status": 200, "headers": [(b"content-length", b"2")]})
            await send({"type": "http.response.body", "body": b"o", "more_body": True})
        if self.late and self.gate is not None:
            await self.gate.wait()
        while True:
            m = await receive()
            inst["msgs"].append(m)
            if m["type"] != "http.request" or not m.get("more_body"):
                break
        if self.respond_first:
            await send({"type": "http.response.body", "body": b"k", "more_body": False})
        else:
            await send({"type": "http.response.start", "status": 200, "headers": [(b"content-length", b"2")]})
            await send({"type": "http.response.body", "body": b"ok", "more_body": False})
        inst["done"] = True


def check_instance(inst: dict, t: dict, http_version: str, scheme: str, want_headers, client, server) -> str:
    sc = inst["scope"]
    raw, qs = ref_split_target(t["target"])
    body = b"".join(t["body"])
    exp = {
        "type": "http", "method": t["method"], "raw_path": raw, "path": ref_unquote(raw), "query_string": qs,
        "http_version": http_version, "scheme": scheme, "client": client, "server": server,
    }
    for k, v in exp.items():
        if sc.get(k) != v:
            return f"scope[{k!r}] = {sc.get(k)!r}, expected {v!r}"
    got_headers = [(bytes(n), bytes(v)) for n, v in sc["headers"]]
    if got_headers != want_headers:
        return f"headers {got_headers!r} != {want_headers!r}"
    reqs = [m for m in inst["msgs"] if m["type"] == "http.request"]
    if len(reqs) != len(inst["msgs"]):
        return "non-request message before the body ended: %r" % (inst["msgs"],)
    if b"".join(m["body"] for m in reqs) != body:
        return "body differs (%d bytes received, %d sent)" % (sum(len(m["body"]) for m in reqs), len(body))
    finals = [m for m in reqs if not m.get("more_body")]
    if len(finals) != 1 or reqs[-1].get("more_body"):
        return "more_body=False count %d" % len(finals)
    if not inst["done"]:
        return "application did not finish"
    return ""


def _h1_session(ti: int, cuts: List[int], late: bool, raw_headers: bool = False, respond_first: bool = False):
    t = TEMPLATES[ti]
    data = h1_request(t["method"], t["target"], t["headers"], t["body"], t["framing"], t["version"])
    box: dict = {}
    app = Recorder(late, box, respond_first)
    conn = Conn(app, make_config(h11_pass_raw_headers=raw_headers), client=("192.0.2.9", 4444), server=("198.51.100.1", 8080))
    app.gate = conn.ctx.event_class()
    pos = 0
    for c in sorted(set(min(c, len(data)) for c in cuts)) + [len(data)]:
        if c > pos:
            conn.feed(data[pos:c])
            pos = c
    if late:
        conn.sched.spawn(app.gate.set(), "open gate")
        conn.sched.run()
    return t, data, app, conn


def _want_h1_headers(t: dict, raw_headers: bool):
    hs = list(t["headers"])
    body = b"".join(t["body"])
    if t["framing"] == "content-length":
        hs.append((b"Content-Length", str(len(body)).encode()))
    elif t["framing"] == "chunked":
        hs.append((b"Transfer-Encoding", b"chunked"))
    if raw_headers:
        return hs
    return [(n.lower(), v) for n, v in hs]


def _verify_h1(t, data, app, conn, raw_headers=False) -> str:
    if len(app.instances) != 1:
        return "application instances: %d" % len(app.instances)
    why = check_instance(app.instances[0], t, t["version"].decode(), "http", _want_h1_headers(t, raw_headers), ("192.0.2.9", 4444), ("198.51.100.1", 8080))
    if why:
        return why
    resps, err, closed, _ = h1_parse(conn.out.peek(), [(t["method"], t["target"])])
    if err or len(resps) != 1 or resps[0].status != 200 or resps[0].body != b"ok" or not resps[0].complete:
        return "client did not see the 200 response: %r %r" % (err, resps)
    if conn.sched.errors:
        return "exception escaped a task: %r" % (conn.sched.errors[0],)
    return ""


def _lens():
    return [len(h1_request(t["method"], t["target"], t["headers"], t["body"], t["framing"], t["version"])) for t in TEMPLATES]


_LENS = _lens()
_MAXSHORT = max(_LENS[:N_SHORT])
QUICK = MODE["tier"] != "thorough"
STRIDE = 3 if QUICK else 1  # quick: every 3rd split offset (phase varies with the template), thorough: every offset


@harness(
    "C01",
    dom={"ti": (0, N_SHORT - 1), "s": (0, _MAXSHORT // STRIDE + 1), "late": "bool", "rawh": "bool"},
    split={"ti": "each", "s": 2},
    thorough_split={"ti": "each", "s": 8},
    witnesses=[{"ti": 1, "s": 6, "late": False, "rawh": False}, {"ti": 3, "s": 20, "late": True, "rawh": False}, {"ti": 1, "s": 30, "late": False, "rawh": True}],
    budget={"quick": 100, "thorough": 300},
    per_path=120,
    bounds="8 HTTP/1.x request templates (6 methods, query/escapes/invalid escape, repeated+mixed-case+empty headers, HTTP/1.0 and 1.1, no body / content-length / chunked) x every two-way split point of the request bytes (quick: every 3rd offset) x application style {reads promptly, reads late, starts its response before reading the body}, raw-header mode on/off",
    encodes=["hypercorn/protocol/h11.py::H11Protocol._handle_events", "hypercorn/protocol/h11.py::H11Protocol._create_stream", "hypercorn/protocol/http_stream.py::HTTPStream.handle",
             "hypercorn/protocol/http_stream.py::HTTPStream.app_send", "hypercorn/protocol/__init__.py::ProtocolWrapper.handle", "hypercorn/asyncio/task_group.py::_handle"],
    stubs=["tier B: worker runtime (reader loop, event, bounded queue, task group) = deterministic FIFO scheduler; transport = in-memory recorder", "client-side h11 parses the server's bytes"],
)
def h1_request_fidelity(ti: int, s: int, late: bool, rawh: bool) -> bool:
    """
    pre: DOM(h1_request_fidelity, ti=ti, s=s, late=late, rawh=rawh)
    post: _
    """
    enter()
    ti = conc(ti, 0, N_SHORT - 1)
    s = conc(s, 0, _MAXSHORT // STRIDE + 1) * STRIDE + (ti % STRIDE)
    if s > _LENS[ti]:
        return done(True, skipped="split beyond the request")
    late = True if late else False
    rawh = True if rawh else False
    # (rawh and late) selects the third application style instead: respond first, then read
    respond_first = rawh and late
    if respond_first:
        rawh, late = False, False
    t, data, app, conn = _h1_session(ti, [s], late, rawh, respond_first)
    why = _verify_h1(t, data, app, conn, rawh)
    return done(why == "", ti=ti, s=s, late=late, rawh=rawh, respond_first=respond_first, why=why)


@harness(
    "C01",
    dom={"ti": (N_SHORT, len(TEMPLATES) - 1), "c0": (0, 7), "c1": (0, 7), "c2": (0, 7), "late": "bool"},
    split={"ti": "each", "c0": "each"},
    tiers=("quick", "thorough"),
    witnesses=[{"ti": 9, "c0": 2, "c1": 4, "c2": 6, "late": True}],
    budget={"quick": 120, "thorough": 400},
    per_path=120,
    bounds="3 long HTTP/1.x requests (65537-byte body, 13 chunks > app queue of 10, 200000-byte HTTP/1.0 body) cut at up to 3 of 8 positions (head middle, head end-1, head end, head end+1, body 1/3, body 65536, body end-1, none) x application reading promptly or late",
    encodes=["hypercorn/protocol/h11.py::H11Protocol._handle_events", "hypercorn/protocol/http_stream.py::HTTPStream.handle"],
    stubs=["tier B runtime"],
)
def h1_long_request_fidelity(ti: int, c0: int, c1: int, c2: int, late: bool) -> bool:
    """
    pre: DOM(h1_long_request_fidelity, ti=ti, c0=c0, c1=c1, c2=c2, late=late)
    post: _
    """
    enter()
    ti = conc(ti, N_SHORT, len(TEMPLATES) - 1)
    late = True if late else False
    if not (c0 <= c1 and c1 <= c2):
        return done(True, skipped="cuts are ordered")
    if QUICK and c2 != 7:
        return done(True, skipped="quick tier: at most two cuts")
    t = TEMPLATES[ti]
    data = h1_request(t["method"], t["target"], t["headers"], t["body"], t["framing"], t["version"])
    head = data.find(b"\r\n\r\n") + 4
    positions = [head // 2, head - 1, head, head + 1, head + (len(data) - head) // 3, min(len(data), head + 65536), len(data) - 1, len(data)]
    cuts = [positions[conc(c, 0, 7)] for c in (c0, c1, c2)]
    respond_first = late and (c0 % 2 == 1)  # half of the "late" runs use the respond-first application instead
    t, data, app, conn = _h1_session(ti, cuts, late and not respond_first, False, respond_first)
    why = _verify_h1(t, data, app, conn)
    return done(why == "", ti=ti, cuts=sorted(set(cuts)), late=late, respond_first=respond_first, why=why)


# ------------------------------------------------------------------ HTTP/2

H2_TEMPLATES = [
    dict(method=b"GET", path=b"/", headers=[], body=[]),
    dict(method=b"GET", path=b"/a%20b?x=%2F&y", headers=[(b"x-a", b"1"), (b"x-a", b"2"), (b"x-empty", b""), (b"host", b"example.com")], body=[]),
    dict(method=b"POST", path=b"/p", headers=[(b"content-type", b"text/plain")], body=[b"hello"]),
    dict(method=b"PUT", path=b"/frames?", headers=[], body=[b"a", b"", b"bc", b"def"]),
    dict(method=b"POST", path=b"/many", headers=[], body=[b"%02d" % i for i in range(13)]),
    dict(method=b"POST", path=b"/big", headers=[], body=[_big(16384), _big(16384), _big(16384), _big(16384), _big(5000)]),
]


def _h2_bytes(t: dict):
    """First flight of the client (as much of the body as its send window allows) and the
    chunks that have to wait for WINDOW_UPDATE frames from the server."""
    c = H2Client()
    c.request(1, t["method"], t["path"], t["headers"], end_stream=not t["body"])
    rest = list(t["body"])
    _h2_send_more(c, rest)
    return c.take(), c, rest


def _h2_send_more(c: H2Client, rest: list) -> None:
    from vf.rt import NoTracing

    with NoTracing():
        while rest:
            room = min(c.conn.local_flow_control_window(1), c.conn.max_outbound_frame_size)
            if len(rest[0]) > room:
                if room <= 0 or len(rest[0]) == 0:
                    return
                head, tail = rest[0][:room], rest[0][room:]
                c.conn.send_data(1, head, end_stream=False)
                rest[0] = tail
                continue
            chunk = rest.pop(0)
            c.conn.send_data(1, chunk, end_stream=not rest)


_H2LENS = [len(_h2_bytes(t)[0]) for t in H2_TEMPLATES]


@harness(
    "C01",
    dom={"ti": (0, len(H2_TEMPLATES) - 1), "s": (0, 400 // (4 if QUICK else 1)), "late": "bool", "alpn": "bool"},
    split={"ti": "each", "s": 3},
    thorough_split={"ti": "each", "s": 16},
    witnesses=[{"ti": 1, "s": 10, "late": False, "alpn": True}, {"ti": 4, "s": 25, "late": True, "alpn": False}],
    budget={"quick": 120, "thorough": 400},
    per_path=120,
    bounds="6 HTTP/2 request templates (repeated/empty headers, host next to :authority, DATA frames incl. empty ones, 13 frames > app queue, 65537 bytes) x every two-way split of the first 400 client bytes (quick: every 4th offset; one cut in the body for longer ones) x prompt/late application x h2 via ALPN or via prior-knowledge preface",
    encodes=["hypercorn/protocol/h2.py::H2Protocol._handle_events", "hypercorn/protocol/h2.py::H2Protocol._create_stream", "hypercorn/utils.py::filter_pseudo_headers",
             "hypercorn/protocol/http_stream.py::HTTPStream.handle", "hypercorn/protocol/h11.py::H11Protocol._check_protocol"],
    stubs=["tier B runtime", "client-side h2 state machine parses the server's frames"],
)
def h2_request_fidelity(ti: int, s: int, late: bool, alpn: bool) -> bool:
    """
    pre: DOM(h2_request_fidelity, ti=ti, s=s, late=late, alpn=alpn)
    post: _
    """
    enter()
    ti = conc(ti, 0, len(H2_TEMPLATES) - 1)
    s = conc(s, 0, 400)
    if QUICK and ti == 5 and s % 4 != 0:
        return done(True, skipped="quick tier: the 70 kB upload is split at every 16th offset only")
    s = s * (4 if QUICK else 1) + (ti % 4 if QUICK else 0)
    if s > 400:
        s = 400
    late = True if late else False
    alpn = True if alpn else False
    t = H2_TEMPLATES[ti]
    data, client, rest = _h2_bytes(t)
    if s > len(data):
        if len(data) > 400 and s == 400:
            s = len(data) - 7  # one cut deep inside the body of long requests
        else:
            return done(True, skipped="split beyond the request")
    respond_first = late and alpn  # third application style, on the ALPN route
    app = Recorder(late and not respond_first, {}, respond_first)
    conn = Conn(app, make_config(), alpn="h2" if alpn else "http/1.1", client=("192.0.2.9", 4444), server=("198.51.100.1", 8080))
    app.gate = conn.ctx.event_class()
    if s > 0:
        conn.feed(data[:s])
    if s < len(data):
        conn.feed(data[s:])
    if late and not respond_first:
        conn.sched.spawn(app.gate.set(), "open gate")
        conn.sched.run()
    rounds = 0
    while rest and rounds < 50:  # body beyond the initial window: wait for the server's WINDOW_UPDATEs
        rounds += 1
        client.feed(conn.take())
        _h2_send_more(client, rest)
        more = client.take()
        if not more:
            break
        conn.feed(more)
    why = ""
    if rest:
        why = "server never re-opened the upload window (%d chunks unsent)" % len(rest)
    elif len(app.instances) != 1:
        why = "application instances: %d" % len(app.instances)
    else:
        hdrs = [(b"host", b"example.com")] + [(n, v) for n, v in t["headers"] if n != b"host"]
        tt = {"method": t["method"].decode(), "target": t["path"], "body": t["body"]}
        why = check_instance(app.instances[0], tt, "2", "http", hdrs, ("192.0.2.9", 4444), ("198.51.100.1", 8080))
    if not why:
        client.feed(conn.take())
        st = client.streams.get(1)
        if client.errors or st is None or st.status != 200 or st.data != b"ok" or st.ended != 1:
            why = "client did not see the 200 response: %r %r" % (client.errors, st)
    if not why and conn.sched.errors:
        why = "exception escaped a task: %r" % (conn.sched.errors[0],)
    return done(why == "", ti=ti, s=s, late=late, alpn=alpn, why=why)


# ------------------------------------------------------------------ filter_pseudo_headers

_PH = [(b":authority", b"auth.example"), (b":method", b"GET"), (b":path", b"/"), (b":scheme", b"https"), (b"host", b"host.example"),
       (b"x-a", b"1"), (b"X-B", b"2"), (b"x-empty", b"")]


@harness(
    "C01",
    dom={"k": (0, 4), "i0": (0, 7), "i1": (0, 7), "i2": (0, 7), "i3": (0, 7), "i4": (0, 7)},
    thorough_dom={"k": (0, 5)},
    split={"i0": "each"},
    witnesses=[{"k": 4, "i0": 1, "i1": 0, "i2": 4, "i3": 5, "i4": 0}],
    budget={"quick": 60, "thorough": 200},
    bounds="every header list of <=4 (thorough 5) entries drawn from {:authority,:method,:path,:scheme,host,x-a,X-B,x-empty}",
    encodes=["hypercorn/utils.py::filter_pseudo_headers"],
)
def filter_pseudo_headers_ref(k: int, i0: int, i1: int, i2: int, i3: int, i4: int) -> bool:
    """
    pre: DOM(filter_pseudo_headers_ref, k=k, i0=i0, i1=i1, i2=i2, i3=i3, i4=i4)
    post: _
    """
    enter()
    k = conc(k, 0, 5)
    idx = (i0, i1, i2, i3, i4)
    headers = [_PH[conc(idx[i], 0, 7)] for i in range(k)]
    before = list(headers)
    got = filter_pseudo_headers(headers)
    auth = [v for n, v in headers if n == b":authority"]
    host = [v for n, v in headers if n == b"host"]
    first = auth[-1] if auth else (host[-1] if host else b"")
    rest = [(n, v) for n, v in headers if not n.startswith(b":") and n != b"host"]
    ok = got == [(b"host", first)] + rest and headers == before
    return done(ok, headers=headers)


# ------------------------------------------------------------------ uploads after early-answered uploads on the same HTTP/2 connection


@harness(
    "C01",
    dom={"early": (0, 3), "each": (0, 2), "zi": (0, 3), "flavour": (0, 1)},
    split={"early": "each"},
    witnesses=[{"early": 1, "each": 2, "zi": 1, "flavour": 0}, {"early": 3, "each": 1, "zi": 3, "flavour": 1}, {"early": 0, "each": 0, "zi": 2, "flavour": 0}],
    budget={"quick": 120, "thorough": 400},
    per_path=120,
    bounds="one HTTP/2 connection: 0..3 uploads of {1000, 21845, 65535} bytes to an application that answers at once without reading, the client (which respects flow control) finishing each upload after the response, then one upload of {0, 10, 70000, 150000} bytes to an application that reads everything: that instance must receive exactly the bytes sent, ending with more_body false",
    encodes=["hypercorn/protocol/h2.py::H2Protocol._handle_events", "hypercorn/protocol/http_stream.py::HTTPStream.handle", "hypercorn/protocol/http_stream.py::HTTPStream.app_put"],
    stubs=["tier B runtime", "client-side h2 state machine that never exceeds the windows the server granted", "the session body runs un-traced (concrete execution per solver-chosen choice vector)"],
)
def h2_upload_after_early_answers(early: int, each: int, zi: int, flavour: int) -> bool:
    """
    pre: DOM(h2_upload_after_early_answers, early=early, each=each, zi=zi, flavour=flavour)
    post: _
    """
    from vf.rt import NoTracing

    enter()
    early = conc(early, 0, 3)
    each = [1000, 21845, 65535][conc(each, 0, 2)]
    size = [0, 10, 70000, 150000][conc(zi, 0, 3)]
    flavour = "asyncio" if conc(flavour, 0, 1) == 0 else "trio"
    got = {}

    async def app(scope, receive, send, sync_spawn=None, call_soon=None):
        path = scope["raw_path"]
        if path.startswith(b"/early"):
            await send({"type": "http.response.start", "status": 413, "headers": [(b"content-length", b"0")]})
            await send({"type": "http.response.body", "body": b"", "more_body": False})
            return
        body, msgs, final = b"", 0, 0
        while True:
            m = await receive()
            if m["type"] != "http.request":
                break
            msgs += 1
            body += m["body"]
            if not m.get("more_body"):
                final += 1
                break
        got[path] = (len(body), body[:16], body[-16:], final)
        await send({"type": "http.response.start", "status": 200, "headers": [(b"content-length", b"2")]})
        await send({"type": "http.response.body", "body": b"ok", "more_body": False})

    def upload(sid: int, path: bytes, payload: bytes) -> str:
        c.request(sid, b"POST", path, end_stream=False)
        conn.feed(c.take())
        c.feed(conn.take())
        rest = [payload] if payload else []
        if not rest:
            c.data(sid, b"", end_stream=True)
        rounds = 0
        while rest and rounds < 400:
            rounds += 1
            with NoTracing():
                room = min(c.conn.local_flow_control_window(sid), c.conn.max_outbound_frame_size)
                if room > 0:
                    chunk, rest[0] = rest[0][:room], rest[0][room:]
                    if not rest[0]:
                        rest.pop()
                    c.conn.send_data(sid, chunk, end_stream=not rest)
            more = c.take()
            if more:
                conn.feed(more)
            c.feed(conn.take())
            conn.feed(c.take())  # acknowledgements of what the server sent
            if room <= 0 and not more:
                return f"stream {sid}: no flow-control credit left with {sum(len(r) for r in rest)} of {len(payload)} body bytes unsent"
        conn.feed(c.take())
        c.feed(conn.take())
        return ""

    # every choice is pinned; hundreds of kB through the real protocol run un-traced (CrossHair's byte-level model of
    # large buffers costs minutes per path): the solver enumerates the choice vector
    with NoTracing():
        conn = Conn(app, make_config(), alpn="h2", flavour=flavour)
        c = H2Client()
        conn.feed(c.take())
        c.feed(conn.take())
        conn.feed(c.take())
        why = ""
        sid = 1
        for i in range(early):
            why = upload(sid, b"/early%d" % i, bytes((j * 7 + i) % 251 for j in range(each)))
            if why:
                # the early-answered stream itself may legitimately run out of stream-level credit: only the connection must stay usable
                why = ""
            sid += 2
        payload = bytes((j * 13 + 5) % 251 for j in range(size))
        why = upload(sid, b"/up", payload)
    if not why:
        g = got.get(b"/up")
        if g is None:
            why = "the uploading application instance never finished reading"
        elif g != (len(payload), payload[:16], payload[-16:], 1):
            why = f"application received {g[0]} bytes (final messages: {g[3]}), {len(payload)} were sent"
        else:
            st = c.streams.get(sid)
            if c.errors or st is None or st.status != 200 or st.data != b"ok" or st.ended != 1:
                why = "client did not see the 200 response: %r %r" % (c.errors, st)
    if not why and conn.sched.errors:
        why = "exception escaped a task: %r" % (conn.sched.errors[0],)
    return done(why == "", early_uploads=early, early_size=each, size=size, flavour=flavour, why=why)


# ------------------------------------------------------------------ an application that starts reading late (real workers, virtual time)


@harness(
    "C01",
    dom={"flavour": (0, 1), "rt": (0, 2), "ci": (0, 2), "wait": (0, 2)},
    split={"flavour": "each"},
    witnesses=[{"flavour": 0, "rt": 1, "ci": 2, "wait": 2}, {"flavour": 1, "rt": 1, "ci": 2, "wait": 2}, {"flavour": 1, "rt": 0, "ci": 0, "wait": 0}],
    budget=150,
    per_path=240,
    bounds="each worker's real TCPServer: a chunked POST of {3, 12, 40} chunks (3 fits the application queue, the others do not) sent at once to an application that starts reading after {0, 0.5, 3} s, with read_timeout in {None, 1, 10}: the application receives exactly the bytes sent, one final more_body=false and no disconnect before it has answered",
    encodes=["hypercorn/asyncio/tcp_server.py::TCPServer._read_data", "hypercorn/trio/tcp_server.py::TCPServer._read_data", "hypercorn/asyncio/task_group.py::TaskGroup.spawn_app", "hypercorn/trio/task_group.py::TaskGroup.spawn_app",
             "hypercorn/protocol/http_stream.py::HTTPStream.handle"],
    stubs=["tier C runtimes (virtual asyncio loop / trio MockClock)", "the session body runs un-traced (concrete execution per solver-chosen choice vector)"],
)
def late_reader_upload(flavour: int, rt: int, ci: int, wait: int) -> bool:
    """
    pre: DOM(late_reader_upload, flavour=flavour, rt=rt, ci=ci, wait=wait)
    post: _
    """
    from vf.session import all_out, run_session

    enter()
    flavour = "asyncio" if conc(flavour, 0, 1) == 0 else "trio"
    read_timeout = [None, 1, 10][conc(rt, 0, 2)]
    n_chunks = [3, 12, 40][conc(ci, 0, 2)]
    delay = [0.0, 0.5, 3.0][conc(wait, 0, 2)]
    chunks = [bytes([65 + (i % 26)]) * (100 + i) for i in range(n_chunks)]
    seen = {"msgs": [], "body": b""}

    def factory(env):
        async def app(scope, receive, send, sync_spawn=None, call_soon=None):
            if delay:
                await env.sleep(delay)
            while True:
                m = await receive()
                seen["msgs"].append((m["type"], m.get("more_body")))
                if m["type"] != "http.request":
                    return
                seen["body"] += m["body"]
                if not m.get("more_body"):
                    break
            await send({"type": "http.response.start", "status": 200, "headers": [(b"content-length", b"2")]})
            await send({"type": "http.response.body", "body": b"ok", "more_body": False})

        return app

    data = h1_request("POST", b"/up", [(b"Host", b"example.com")], chunks, "chunked")
    cfg = make_config(keep_alive_timeout=30, read_timeout=read_timeout) if read_timeout is not None else make_config(keep_alive_timeout=30)
    # every choice is pinned; the session (dozens of chunks through the real runtimes) runs un-traced - the solver
    # enumerates the choice vector (same division of labour as C08's back-pressure sessions)
    from vf.rt import NoTracing

    with NoTracing():
        obs = run_session(flavour, factory, cfg, [("feed", data), ("sleep", delay + 0.5)])
    resps, err, _, _ = h1_parse(all_out(obs), [("POST", b"/up")])
    want = b"".join(chunks)
    finals = [m for m in seen["msgs"] if m == ("http.request", False)]
    why = ""
    if obs["handler_error"] is not None:
        why = "connection handler raised %r" % (obs["handler_error"],)
    elif seen["body"] != want:
        why = f"application received {len(seen['body'])} of {len(want)} body bytes ({[t for t, _ in seen['msgs']][-3:]})"
    elif len(finals) != 1 or seen["msgs"][-1] != ("http.request", False):
        why = f"end of the body signalled {len(finals)} times / not last: {seen['msgs'][-3:]}"
    elif err or len(resps) != 1 or resps[0].status != 200 or not resps[0].complete:
        why = f"client did not get the 200: {resps!r} {err}"
    return done(why == "", flavour=flavour, read_timeout=read_timeout, chunks=n_chunks, app_waits=delay, why=why)
