"""./check <Cnn> [--tier quick|thorough] [--replay file] [--only harness[,harness]] [--procs n]

Decides one property: runs every registered harness of the property as a set of CrossHair
jobs (16 processes), replays counterexamples natively, matches them against
known_findings.json, writes evidence/<id>.json.

exit 0  property held on everything explored (known findings are printed, not alarms)
exit 1  VIOLATION property=<id> replay=<path>   (reproduced natively on the real code)
exit 3  the check itself is broken (vacuous harness, job crash, no usable verdict)
"""
from __future__ import annotations

import argparse
import ast
import hashlib
import importlib
import itertools
import json
import os
import subprocess
import sys
import time
from concurrent.futures import ThreadPoolExecutor, as_completed

ROOT = os.path.dirname(os.path.dirname(os.path.abspath(__file__)))
PY = sys.executable


def run_job(spec: dict, timeout: float) -> dict:
    env = dict(os.environ)
    alt = os.environ.get("VERIF_REPO")
    env["PYTHONPATH"] = (alt + "/src:" if alt else "") + ROOT
    env["PYTHONDONTWRITEBYTECODE"] = "1"
    env["PYTHONHASHSEED"] = "0"
    t = time.time()
    try:
        p = subprocess.run(
            [PY, "-m", "vf.job", json.dumps(spec)],
            cwd=ROOT,
            env=env,
            capture_output=True,
            text=True,
            timeout=timeout,
        )
    except subprocess.TimeoutExpired as e:
        return {"verdict": "JOB_TIMEOUT", "wall_s": round(time.time() - t, 1), "harness": spec.get("harness"), "part": spec.get("part", {})}
    for line in reversed(p.stdout.splitlines()):
        if line.startswith("JOBRESULT "):
            res = json.loads(line[len("JOBRESULT ") :])
            res.setdefault("harness", spec.get("harness"))
            res.setdefault("part", spec.get("part", {}))
            return res
    return {
        "verdict": "JOB_ERROR",
        "harness": spec.get("harness"),
        "part": spec.get("part", {}),
        "error": "no JOBRESULT",
        "stdout": p.stdout[-2000:],
        "stderr": p.stderr[-4000:],
        "rc": p.returncode,
    }


def partitions(fn):
    from vf import rt

    dom = rt.effective_dom(fn)
    split = rt.effective_split(fn)
    axes = []
    for name, how in split.items():
        lo, hi = dom[name]
        if how == "each":
            axes.append([(name, (v, v)) for v in range(lo, hi + 1)])
        else:
            n = min(int(how), hi - lo + 1)
            size = (hi - lo + 1 + n - 1) // n
            rng = []
            v = lo
            while v <= hi:
                rng.append((name, (v, min(hi, v + size - 1))))
                v += size
            axes.append(rng)
    if not axes:
        return [{}]
    return [dict(c) for c in itertools.product(*axes)]


def load_findings():
    path = os.path.join(ROOT, "known_findings.json")
    if not os.path.exists(path):
        return {"findings": [], "fixed": []}
    with open(path) as f:
        return json.load(f)


def region_matches(region: str, args: dict, fn) -> bool:
    try:
        return bool(eval(region, fn.__globals__, dict(args)))
    except Exception:
        return False


def main() -> int:
    ap = argparse.ArgumentParser()
    ap.add_argument("prop")
    ap.add_argument("--tier", default=os.environ.get("VERIF_TIER", "quick"))
    ap.add_argument("--replay", default=None)
    ap.add_argument("--only", default=None)
    ap.add_argument("--procs", type=int, default=int(os.environ.get("VERIF_PROCS", "0")) or (os.cpu_count() or 4))
    ap.add_argument("--budget-scale", type=float, default=float(os.environ.get("VERIF_BUDGET_SCALE", "1")))
    ap.add_argument("--no-evidence", action="store_true")
    a = ap.parse_args()
    prop = a.prop.upper()
    tier = a.tier if a.tier in ("quick", "thorough") else "quick"
    seed = int(os.environ.get("VERIF_SEED", "0") or 0)
    t0 = time.time()

    if a.replay:
        with open(a.replay) as f:
            rp = json.load(f)
        res = run_job(
            {"mode": "native", "prop": rp["property"], "harness": rp["harness"], "args": rp["args"], "tier": rp.get("tier", tier)},
            600,
        )
        print(json.dumps(res, indent=1))
        if not res.get("ok"):
            print(f"VIOLATION property={rp['property']} replay={a.replay}")
            return 1
        print("replay: property holds on this input")
        return 0

    from vf import rt

    rt.MODE["tier"] = tier
    importlib.import_module("vf.harness." + prop.lower())
    harnesses = dict(rt.REGISTRY.get(prop, {}))
    if a.only:
        keep = set(a.only.split(","))
        harnesses = {k: v for k, v in harnesses.items() if k in keep}
    harnesses = {k: v for k, v in harnesses.items() if tier in v.__vf__["tiers"]}
    if not harnesses:
        print(f"no harness registered for {prop}")
        return 3

    kf = load_findings()
    known = [f for f in kf.get("findings", []) if f["property"] == prop and f["harness"] in harnesses]

    violations = []  # (harness, args, how)
    known_seen = []
    inconclusive = []
    broken = []
    functions = set()
    native_runs = 0
    samples = []
    jobs_out = []

    # ---- 1. known findings: replay each witness natively
    exclude = {h: [] for h in harnesses}
    with ThreadPoolExecutor(max_workers=a.procs) as ex:
        futs = {}
        for f in known:
            spec = {"mode": "native", "prop": prop, "harness": f["harness"], "args": f["witness"], "tier": tier}
            futs[ex.submit(run_job, spec, 900)] = f
        for fut in as_completed(futs):
            f = futs[fut]
            res = fut.result()
            native_runs += 1
            if res.get("verdict") in ("JOB_ERROR", "JOB_TIMEOUT"):
                broken.append(("known-finding replay " + f["id"], res))
                continue
            if not res.get("ok"):
                print(f"KNOWN-FINDING: property={prop} {f['id']}: {f['summary']}")
                known_seen.append(f["id"])
                exclude[f["harness"]].append(f["region"])
            # a witness that no longer fails: the entry is ignored and suppresses nothing

    # ---- 2. native witnesses (validate stubs/oracles, collect encoded functions, samples)
    with ThreadPoolExecutor(max_workers=a.procs) as ex:
        futs = {}
        for name, fn in harnesses.items():
            for w in fn.__vf__["witnesses"]:
                spec = {"mode": "native", "prop": prop, "harness": name, "args": repr(w), "tier": tier, "trace_functions": True}
                futs[ex.submit(run_job, spec, 900)] = (name, w)
        for fut in as_completed(futs):
            name, w = futs[fut]
            res = fut.result()
            native_runs += 1
            functions.update(res.get("functions", []))
            if res.get("verdict") in ("JOB_ERROR", "JOB_TIMEOUT"):
                broken.append((f"witness {name} {w}", res))
            elif not res.get("ok"):
                fn = harnesses[name]
                hit = [f for f in known if f["harness"] == name and f["id"] in known_seen and region_matches(f["region"], w, fn)]
                if not hit:
                    violations.append((name, w, "native witness fails: " + str(res.get("exc") or res.get("fail_vec"))))
            else:
                if len(samples) < 12:
                    samples.append({"harness": name, "native_witness": w})

    # ---- 3. symbolic jobs
    specs = []
    for name, fn in harnesses.items():
        meta = fn.__vf__
        b = meta["budget"]
        budget = (b[tier] if isinstance(b, dict) else b) * a.budget_scale
        if tier == "thorough":
            # together with the wall-time cap below this bounds a thorough check to roughly 20 minutes
            budget = min(budget, float(os.environ.get("VERIF_JOB_BUDGET_CAP", "0") or 0) or 420.0)
        for part in partitions(fn):
            specs.append(
                {
                    "mode": "check",
                    "prop": prop,
                    "harness": name,
                    "part": part,
                    "exclude": exclude[name],
                    "tier": tier,
                    "budget": budget,
                }
            )
    specs.sort(key=lambda s: -s["budget"])
    # A ceiling on the wall time of the symbolic stage: jobs that have not been started by then are reported as
    # inconclusive ("not started"), never as confirmed.  It is not reached by the quick tier; it keeps the thorough
    # tier of the widest harnesses (hundreds of partitions) within a known time.
    wall_cap = float(os.environ.get("VERIF_WALL_CAP", "0") or 0) or (1800.0 if tier == "quick" else 600.0)
    t_sym = time.time()

    def run_capped(spec, timeout):
        if time.time() - t_sym > wall_cap:
            return {"harness": spec["harness"], "part": spec.get("part", {}), "verdict": "CANNOT_CONFIRM", "not_started": True, "paths": 0}
        return run_job(spec, timeout)

    with ThreadPoolExecutor(max_workers=a.procs) as ex:
        futs = {ex.submit(run_capped, s, s["budget"] * 3 + 240): s for s in specs}
        for fut in as_completed(futs):
            s = futs[fut]
            r = fut.result()
            r["budget"] = s["budget"]
            jobs_out.append(r)

    # ---- 4. triage
    replay_specs = []
    for r in jobs_out:
        v = r.get("verdict")
        tag = f"{r.get('harness')}{r.get('part') or ''}"
        if v in ("CONFIRMED", "KNOWN_REGION"):
            continue
        if v == "CANNOT_CONFIRM":
            inconclusive.append(tag + (" (not started: wall-time cap of the tier)" if r.get("not_started") else ""))
        elif v == "REFUTED":
            args = r.get("cex_args")
            if args is None:
                inconclusive.append(tag + " (counterexample not parseable: %s)" % (r.get("cex_msg") or "")[:200])
                continue
            replay_specs.append((r, {"mode": "native", "prop": prop, "harness": r["harness"], "args": args, "tier": tier}))
        else:
            broken.append((tag, r))
    with ThreadPoolExecutor(max_workers=a.procs) as ex:
        futs = {ex.submit(run_job, s, 900): (r, s) for r, s in replay_specs}
        for fut in as_completed(futs):
            r, s = futs[fut]
            res = fut.result()
            native_runs += 1
            r["replay"] = {k: res.get(k) for k in ("ok", "exc", "wall_s", "verdict")}
            args = ast.literal_eval(s["args"])
            if res.get("verdict") in ("JOB_ERROR", "JOB_TIMEOUT"):
                broken.append(("replay " + r["harness"], res))
            elif res.get("ok"):
                # does not reproduce natively: engine artefact, never a violation
                inconclusive.append(f"{r['harness']}{r.get('part') or ''} (engine artefact: {s['args'][:200]} does not reproduce natively)")
                r["verdict"] = "ENGINE_ARTEFACT"
            else:
                fn = harnesses[r["harness"]]
                hit = [f for f in known if f["harness"] == r["harness"] and f["id"] in known_seen and region_matches(f["region"], args, fn)]
                if hit:
                    # should have been excluded by the precondition; count it as the known finding
                    r["verdict"] = "KNOWN:" + hit[0]["id"]
                else:
                    violations.append((r["harness"], args, (r.get("cex_msg") or "")[:400] + " | native: " + str(res.get("exc"))))

    # ---- 5. report
    os.makedirs(os.path.join(ROOT, "replays"), exist_ok=True)
    vio_paths = []
    seen = set()
    for name, args, how in violations:
        key = hashlib.sha1((name + repr(sorted(args.items()))).encode()).hexdigest()[:10]
        if key in seen:
            continue
        seen.add(key)
        path = os.path.join(ROOT, "replays", f"{prop}-{name}-{key}.json")
        with open(path, "w") as f:
            json.dump({"property": prop, "harness": name, "args": repr(args), "tier": tier, "how": how}, f, indent=1)
        vio_paths.append(path)
        print(f"VIOLATION property={prop} replay={path}")
        print(f"  harness={name} args={args!r}\n  {how}")

    n_paths = sum(int(r.get("paths") or 0) for r in jobs_out)
    n_reached = sum(int(r.get("reached") or 0) for r in jobs_out)
    n_distinct = sum(int(r.get("distinct_vectors") or 0) for r in jobs_out)
    confirmed = sum(1 for r in jobs_out if r.get("verdict") in ("CONFIRMED", "KNOWN_REGION"))
    for r in jobs_out:
        for smp in r.get("samples") or []:
            if len(samples) < 24:
                samples.append({"harness": r.get("harness"), "path_model": smp})
    exhaustive = bool(jobs_out) and confirmed == len(jobs_out) and not broken

    from vf import rt as _rt

    bounds = {name: fn.__vf__["bounds"] + " | dom=" + repr(_rt.effective_dom(fn)) for name, fn in harnesses.items()}
    stubs = sorted({s for fn in harnesses.values() for s in fn.__vf__["stubs"]})
    encodes = sorted({s for fn in harnesses.values() for s in fn.__vf__["encodes"]})
    ev = {
        "property_id": prop,
        "tier": tier,
        "seed": seed,
        "level": "model_checking",
        "coverage": {
            "evaluations": max(1, n_paths + native_runs),
            "distinct_nontrivial": n_distinct + len(samples),
            "rule": "each evaluation is one symbolic path of the real hypercorn code explored by CrossHair/z3 (plus native witness/replay runs); "
            "a case is counted as distinct+non-trivial when the path reached the harness's final assertion with a choice vector / path condition "
            "not seen before (paths of one job are disjoint regions of the input space by construction)",
            "samples": samples[:24] or [{"note": "no samples"}],
            "exhaustive": exhaustive,
            "paths_explored": n_paths,
            "paths_reaching_assertion": n_reached,
            "jobs_total": len(jobs_out),
            "jobs_confirmed_over_all_paths": confirmed,
            "inconclusive": inconclusive,
            "solver_queries": sum(int(r.get("z3_checks") or 0) for r in jobs_out),
            "solver_time_s": round(sum(float(r.get("z3_s") or 0) for r in jobs_out), 2),
            "functions_encoded": sorted(functions) or encodes,
            "functions_targeted": encodes,
            "bounds": bounds,
            "jobs": [
                {
                    k: r.get(k)
                    for k in ("harness", "part", "verdict", "paths", "reached", "z3_checks", "z3_s", "wall_s", "budget", "twin_ok", "replay")
                }
                for r in sorted(jobs_out, key=lambda r: (str(r.get("harness")), str(r.get("part"))))
            ],
            "known_findings_seen": known_seen,
            "engine": "CrossHair 0.0.110 symbolic execution of /repo/src/hypercorn (current working tree) with z3 %s" % _z3v(),
            "explanation": "bounded symbolic execution: CONFIRMED = postcondition holds on every path of the harness within the stated domain; "
            "CANNOT_CONFIRM = budget exhausted, reported as inconclusive, not as success",
        },
        "assumptions": stubs
        + [
            "h11/h2/hpack/hyperframe/priority/wsproto run natively (sealed) and are trusted",
            "claims hold only inside the bounds listed under coverage.bounds",
        ],
        "wall_s": round(time.time() - t0, 2),
        "violations": len(vio_paths),
    }
    if not a.no_evidence and not a.only:
        os.makedirs(os.path.join(ROOT, "evidence"), exist_ok=True)
        with open(os.path.join(ROOT, "evidence", f"{prop}.json"), "w") as f:
            json.dump(ev, f, indent=1, default=repr)

    print(
        f"{prop} [{tier}] jobs={len(jobs_out)} confirmed={confirmed} inconclusive={len(inconclusive)} "
        f"paths={n_paths} z3_checks={ev['coverage']['solver_queries']} z3_s={ev['coverage']['solver_time_s']} "
        f"native_runs={native_runs} known={len(known_seen)} violations={len(vio_paths)} wall={ev['wall_s']}s"
    )
    for tag in inconclusive:
        print("  inconclusive:", tag)
    for n, (tag, r) in enumerate(broken):
        if n >= 3:
            print(f"  ... and {len(broken) - 3} more broken jobs")
            break
        print("  BROKEN:", tag, json.dumps({k: r.get(k) for k in ("verdict", "error", "twin", "messages", "stderr", "traceback") if r.get(k)}, default=repr)[:1500])
    if vio_paths:
        return 1
    if broken:
        return 3
    if not jobs_out or (confirmed == 0 and not inconclusive):
        return 3
    return 0


def _z3v() -> str:
    try:
        import z3

        return z3.get_version_string()
    except Exception:
        return "?"


if __name__ == "__main__":
    sys.exit(main())
