"""C12 invalid application messages are rejected without corrupting the wire."""
from __future__ import annotations

from hypercorn.protocol.events import (
    Body,
    Data,
    EndBody,
    EndData,
    InformationalResponse,
    Request,
    Response,
    StreamClosed,
    Trailers,
)
from hypercorn.utils import build_and_validate_headers

from vf.rt import DOM, conc, done, enter, harness
from vf.stubs.b import Rig, recording_app

# ------------------------------------------------------------------ HTTP send automaton

H_START, H_BODY_MORE, H_BODY_END, H_TRAILERS, H_PUSH, H_HINT, H_UNKNOWN, H_START_STRNAME, H_START_PSEUDO, H_PUSH_BADPATH = range(10)
HNAMES = ["start", "body+", "body.", "trailers", "push", "early_hint", "unknown", "start(str name)", "start(:pseudo)", "push(path=int)"]


def _hmsg(i: int) -> dict:
    if i == H_START:
        return {"type": "http.response.start", "status": 200, "headers": [(b"x-a", b"1")]}
    if i == H_BODY_MORE:
        return {"type": "http.response.body", "body": b"ab", "more_body": True}
    if i == H_BODY_END:
        return {"type": "http.response.body", "body": b"c", "more_body": False}
    if i == H_TRAILERS:
        return {"type": "http.response.trailers", "headers": [(b"x-t", b"1")], "more_trailers": False}
    if i == H_PUSH:
        return {"type": "http.response.push", "path": "/pushed", "headers": [(b"x-p", b"1")]}
    if i == H_HINT:
        return {"type": "http.response.early_hint", "links": [b"</s.css>; rel=preload"]}
    if i == H_UNKNOWN:
        return {"type": "not.a.real.type"}
    if i == H_START_STRNAME:
        return {"type": "http.response.start", "status": 200, "headers": [("x-a", b"1")]}
    if i == H_START_PSEUDO:
        return {"type": "http.response.start", "status": 200, "headers": [(b":status", b"500")]}
    return {"type": "http.response.push", "path": 5, "headers": []}


def ref_http(seq, version: str):
    """Reference automaton written from the ASGI HTTP spec.  Returns per message
    'ok' | 'error' | 'unspecified', and the number of final response heads."""
    state = "REQUEST"
    out = []
    v2 = version == "2"
    for i in seq:
        if i in (H_START, H_START_STRNAME, H_START_PSEUDO):
            if state == "REQUEST" and i == H_START:
                out.append("ok")
                state = "RESPONSE"
            else:
                out.append("error")
        elif i in (H_BODY_MORE, H_BODY_END):
            if state == "RESPONSE":
                out.append("ok")
                if i == H_BODY_END:
                    state = "CLOSED"
            else:
                out.append("error")
        elif i == H_TRAILERS:
            if v2 and state == "REQUEST":
                out.append("unspecified")  # hypercorn's trailers-only responses: outside the ASGI spec
                break
            out.append("error")
        elif i in (H_PUSH, H_PUSH_BADPATH):
            if not v2:
                out.append("error")  # extension not advertised on HTTP/1
            elif state == "CLOSED":
                out.append("error")
            elif i == H_PUSH:
                out.append("ok")
            else:
                out.append("error")
        elif i == H_HINT:
            out.append("ok" if (v2 and state == "REQUEST") else "error")
        else:
            out.append("error")
    return out


def _count_events(events):
    return len(events)


@harness(
    "C12",
    dom={"n": (1, 3), "a": (0, 9), "b": (0, 9), "c": (0, 9), "d": (0, 9), "v2": (0, 1)},
    thorough_dom={"n": (1, 4)},
    split={"a": "each", "v2": "each"},
    thorough_split={"a": "each", "b": "each"},
    witnesses=[{"n": 3, "a": 0, "b": 1, "c": 2, "d": 0, "v2": 0}, {"n": 3, "a": 5, "b": 0, "c": 2, "d": 0, "v2": 1}],
    budget={"quick": 100, "thorough": 600},
    bounds="every sequence of <=3 (thorough 4) messages over a 10-letter HTTP send alphabet (valid and invalid payloads) x HTTP/1.1 and HTTP/2, against a reference automaton of the ASGI spec",
    encodes=["hypercorn/protocol/http_stream.py::HTTPStream.app_send", "hypercorn/utils.py::build_and_validate_headers"],
    stubs=["stream `send` callback = recorder (one recorded event = something handed to the protocol for the wire)"],
)
def http_send_automaton(n: int, a: int, b: int, c: int, d: int, v2: int) -> bool:
    """
    pre: DOM(http_send_automaton, n=n, a=a, b=b, c=c, d=d, v2=v2)
    post: _
    """
    enter()
    n = conc(n, 1, 4)
    letters = (a, b, c, d)
    seq = [conc(letters[i], 0, 9) for i in range(n)]
    version = "2" if conc(v2, 0, 1) else "1.1"
    want = ref_http(seq, version)
    rig = Rig("http")
    rig.set_app(recording_app(rig))
    rig.request("GET", b"/", version, [(b"host", b"h")])
    ok = True
    why = ""
    heads = 0
    for idx, w in enumerate(want):
        if w == "unspecified":
            break
        before = len(rig.events)
        err = rig.app_send(_hmsg(seq[idx]))
        new = rig.events[before:]
        heads += sum(1 for e in new if isinstance(e, Response))
        if w == "ok":
            if err is not None or not new:
                ok, why = False, f"message {idx} ({HNAMES[seq[idx]]}) is legal but was refused or produced nothing: {err!r}"
                break
        else:
            if err is None:
                ok, why = False, f"message {idx} ({HNAMES[seq[idx]]}) is illegal here but raised nothing"
                break
            if new:
                ok, why = False, f"message {idx} ({HNAMES[seq[idx]]}) is illegal here but produced {new!r}"
                break
    if heads > 1:
        ok, why = False, "more than one final response head"
    return done(ok, seq=[HNAMES[i] for i in seq], version=version, why=why)


# ------------------------------------------------------------------ WebSocket send automaton

(W_ACCEPT, W_ACCEPT_BADSUB, W_TEXT, W_BYTES, W_BADTEXT, W_CLOSE, W_HSTART, W_HBODY_END, W_HBODY_MORE, W_UNKNOWN, W_HSTART_PSEUDO, W_BYTESTEXT) = range(12)
WNAMES = ["accept", "accept(bad subprotocol)", "send text", "send bytes", "send(text=int)", "close", "http.start", "http.body.", "http.body+", "unknown", "http.start(:pseudo)", "send(text=bytes)"]


def _wmsg(i: int) -> dict:
    if i == W_ACCEPT:
        return {"type": "websocket.accept", "subprotocol": "chat", "headers": [(b"x-a", b"1")]}
    if i == W_ACCEPT_BADSUB:
        return {"type": "websocket.accept", "subprotocol": "not-offered"}
    if i == W_TEXT:
        return {"type": "websocket.send", "text": "hi", "bytes": None}
    if i == W_BYTES:
        return {"type": "websocket.send", "bytes": b"hi"}
    if i == W_BADTEXT:
        return {"type": "websocket.send", "bytes": None, "text": 5}
    if i == W_CLOSE:
        return {"type": "websocket.close", "code": 1000}
    if i == W_HSTART:
        return {"type": "websocket.http.response.start", "status": 401, "headers": [(b"x-a", b"1")]}
    if i == W_HBODY_END:
        return {"type": "websocket.http.response.body", "body": b"no", "more_body": False}
    if i == W_HBODY_MORE:
        return {"type": "websocket.http.response.body", "body": b"n", "more_body": True}
    if i == W_UNKNOWN:
        return {"type": "not.a.real.type"}
    if i == W_BYTESTEXT:
        return {"type": "websocket.send", "bytes": None, "text": b"not-a-str"}
    return {"type": "websocket.http.response.start", "status": 401, "headers": [(b":status", b"200")]}


def ref_ws(seq):
    state = "HANDSHAKE"
    started = None  # None | "good" | "bad" : http.response.start stored
    out = []
    for i in seq:
        if i in (W_ACCEPT, W_ACCEPT_BADSUB):
            if state == "HANDSHAKE" and started is not None:
                out.append("unspecified")
                break
            if state == "HANDSHAKE" and i == W_ACCEPT:
                out.append("ok")
                state = "CONNECTED"
            else:
                out.append("error")  # a refused accept changes nothing: the handshake is still unanswered
        elif i in (W_TEXT, W_BYTES, W_BADTEXT, W_BYTESTEXT):
            out.append("ok" if (state == "CONNECTED" and i not in (W_BADTEXT, W_BYTESTEXT)) else "error")
        elif i == W_CLOSE:
            if state == "HANDSHAKE" and started is None:
                out.append("ok")
                state = "HTTPCLOSED"
            elif state == "CONNECTED":
                out.append("ok")
                state = "CLOSED"
            else:
                out.append("unspecified")
                break
        elif i in (W_HSTART, W_HSTART_PSEUDO):
            if state == "HANDSHAKE" and started is None:
                out.append("silent" if i == W_HSTART else "silent-or-error")
                started = "good" if i == W_HSTART else "bad"
            elif state == "HANDSHAKE":
                out.append("unspecified")
                break
            else:
                out.append("error")
        elif i in (W_HBODY_END, W_HBODY_MORE):
            if state == "HANDSHAKE" and started == "good":
                out.append("ok")
                state = "HTTPCLOSED" if i == W_HBODY_END else "RESPONSE"
            elif state == "RESPONSE":
                out.append("ok")
                if i == W_HBODY_END:
                    state = "HTTPCLOSED"
            else:
                out.append("error")
                if state == "HANDSHAKE" and started == "bad":
                    out.append("stop")
                    break
        else:
            out.append("error")
    return out


_WS_HEADERS = [
    (b"host", b"h"),
    (b"upgrade", b"websocket"),
    (b"connection", b"upgrade"),
    (b"sec-websocket-key", b"dGhlIHNhbXBsZSBub25jZQ=="),
    (b"sec-websocket-version", b"13"),
    (b"sec-websocket-protocol", b"chat, superchat"),
]


@harness(
    "C12",
    dom={"n": (1, 3), "a": (0, 11), "b": (0, 11), "c": (0, 11), "d": (0, 11)},
    thorough_dom={"n": (1, 4)},
    split={"a": "each", "b": 2},
    thorough_split={"a": "each", "b": "each"},
    witnesses=[{"n": 3, "a": 0, "b": 2, "c": 5, "d": 0}, {"n": 3, "a": 6, "b": 8, "c": 7, "d": 0}],
    budget={"quick": 100, "thorough": 600},
    bounds="every sequence of <=3 (thorough 4) messages over a 12-letter WebSocket send alphabet (valid and invalid payloads) after a valid HTTP/1.1 handshake, against a reference automaton of the ASGI spec",
    encodes=["hypercorn/protocol/ws_stream.py::WSStream.app_send", "hypercorn/protocol/ws_stream.py::WSStream._accept", "hypercorn/protocol/ws_stream.py::WSStream._send_rejection", "hypercorn/protocol/ws_stream.py::Handshake.accept"],
    stubs=["stream `send` callback = recorder"],
)
def ws_send_automaton(n: int, a: int, b: int, c: int, d: int) -> bool:
    """
    pre: DOM(ws_send_automaton, n=n, a=a, b=b, c=c, d=d)
    post: _
    """
    enter()
    n = conc(n, 1, 4)
    letters = (a, b, c, d)
    seq = [conc(letters[i], 0, 11) for i in range(n)]
    want = ref_ws(seq)
    rig = Rig("ws")
    rig.set_app(recording_app(rig))
    rig.request("GET", b"/ws", "1.1", list(_WS_HEADERS))
    ok = True
    why = ""
    heads = 0
    for idx, w in enumerate(want):
        if w in ("unspecified", "stop"):
            break
        before = len(rig.events)
        err = rig.app_send(_wmsg(seq[idx]))
        new = rig.events[before:]
        heads += sum(1 for e in new if isinstance(e, Response))
        if w == "ok":
            if err is not None or not new:
                ok, why = False, f"message {idx} ({WNAMES[seq[idx]]}) is legal but was refused or produced nothing: {err!r}"
                break
        elif w == "silent":
            if err is not None or new:
                ok, why = False, f"message {idx} ({WNAMES[seq[idx]]}) should be stored silently: {err!r} {new!r}"
                break
        elif w == "silent-or-error":
            if new:
                ok, why = False, f"message {idx} ({WNAMES[seq[idx]]}) produced {new!r}"
                break
        else:
            if err is None:
                ok, why = False, f"message {idx} ({WNAMES[seq[idx]]}) is illegal here but raised nothing"
                break
            if new:
                ok, why = False, f"message {idx} ({WNAMES[seq[idx]]}) is illegal here but produced {new!r}"
                break
    if heads > 1:
        ok, why = False, "more than one response head"
    if ok and "unspecified" not in want and "stop" not in want:
        # the application ends here: the server's clean-up must cope with whatever state the sends left behind
        err = rig.app_send(None)
        if err is not None:
            ok, why = False, f"clean-up after the application ended raised {err!r}"
    return done(ok, seq=[WNAMES[i] for i in seq], why=why)


# ------------------------------------------------------------------ header validation

_ALPHA = [0x3A, 0x61, 0x20, 0x0D, 0x0A, 0x00]  # ':' 'a' ' ' CR LF NUL


def _pin_bytes(n, idx, maxlen):
    n = conc(n, 0, maxlen)
    return bytes(_ALPHA[conc(idx[i], 0, len(_ALPHA) - 1)] for i in range(n))


@harness(
    "C12",
    dom={"nl": (1, 2), "n0": (0, 5), "n1": (0, 5), "n2": (0, 5), "vl": (0, 2), "v0": (0, 5), "v1": (0, 5), "v2": (0, 5), "kind": (0, 3)},
    thorough_dom={"nl": (1, 3), "vl": (0, 3)},
    split={"kind": "each", "n0": "each"},
    witnesses=[{"nl": 1, "n0": 1, "n1": 0, "n2": 0, "vl": 2, "v0": 1, "v1": 2, "v2": 0, "kind": 0},
               {"nl": 2, "n0": 0, "n1": 1, "n2": 0, "vl": 0, "v0": 0, "v1": 0, "v2": 0, "kind": 0}],
    budget={"quick": 90, "thorough": 400},
    bounds="build_and_validate_headers on one header: name 1..2 bytes, value 0..2 bytes (thorough 3/3) over {':','a',' ',CR,LF,NUL}; name/value given as bytes, str or bytearray; CR/LF/NUL left after stripping must be refused",
    encodes=["hypercorn/utils.py::build_and_validate_headers"],
)
def validate_headers_unit(nl: int, n0: int, n1: int, n2: int, vl: int, v0: int, v1: int, v2: int, kind: int) -> bool:
    """
    pre: DOM(validate_headers_unit, nl=nl, n0=n0, n1=n1, n2=n2, vl=vl, v0=v0, v1=v1, v2=v2, kind=kind)
    post: _
    """
    enter()
    kind = conc(kind, 0, 3)
    name = _pin_bytes(nl, (n0, n1, n2), 3)
    value = _pin_bytes(vl, (v0, v1, v2), 3)
    n_in, v_in = name, value
    if kind == 1:
        n_in = name.decode("latin1")  # str name: must be refused
    elif kind == 2:
        if len(value) == 0:
            # CrossHair's model of bytes("") returns b"" where CPython raises TypeError: outside the claim
            return done(True, skipped="empty str value (engine model of bytes('') deviates)")
        v_in = value.decode("latin1")  # str value: must be refused
    elif kind == 3:
        n_in = bytearray(name)
    try:
        out = build_and_validate_headers([(n_in, v_in)])
        err = None
    except Exception as e:  # noqa: BLE001
        out, err = None, e
    pseudo = name[0] == 0x3A
    illegal = any(b in bytes(name).strip() or b in bytes(value).strip() for b in (b"\r", b"\n", b"\x00"))
    if kind in (1, 2):
        ok = err is not None
    elif pseudo or illegal:
        ok = isinstance(err, ValueError)  # nothing that could break out of the header field is passed on
    else:
        ok = err is None and len(out) == 1 and isinstance(out[0][0], bytes) and isinstance(out[0][1], bytes) and out[0][0] == bytes(name).strip() and out[0][1] == bytes(value).strip()
    return done(ok, name=name, value=value, kind=kind)


# ------------------------------------------------------------------ CR / LF / NUL never reach the wire

_ROUTES = ["http.response.start", "http.response.trailers", "http.response.push headers", "http.response.push path", "http.response.early_hint link",
           "websocket.accept headers", "websocket.http.response.start"]
_INJECT = [b"a\r\nx-injected: 1", b"a\nx-injected: 1", b"a\rb", b"a\x00b", b"\r\nclean\r\n", b"plain"]


@harness(
    "C12",
    dom={"ri": (0, len(_ROUTES) - 1), "bi": (0, len(_INJECT) - 1), "name": "bool", "h2": "bool"},
    split={"ri": "each"},
    witnesses=[{"ri": 0, "bi": 0, "name": False, "h2": True}, {"ri": 5, "bi": 1, "name": True, "h2": True}, {"ri": 0, "bi": 5, "name": False, "h2": False}],
    budget=100,
    per_path=60,
    bounds="7 ways for application bytes to become header bytes (response start, trailers, push headers, push path, early-hint link, websocket.accept headers, websocket denial response) x 6 byte strings (CR LF + a second header, bare LF, bare CR, NUL, CR/LF only at the ends, plain) placed in the name or the value x HTTP/1.1 or HTTP/2 (where the route exists)",
    encodes=["hypercorn/utils.py::build_and_validate_headers", "hypercorn/protocol/http_stream.py::HTTPStream.app_send", "hypercorn/protocol/ws_stream.py::Handshake.accept", "hypercorn/protocol/ws_stream.py::WSStream._send_rejection",
             "hypercorn/protocol/h2.py::H2Protocol.stream_send", "hypercorn/protocol/h11.py::H11Protocol.stream_send"],
    stubs=["tier B runtime", "the server's output is decoded by an independent hpack/hyperframe reader (HTTP/2) or searched as raw bytes (HTTP/1.1)"],
)
def header_bytes_on_the_wire(ri: int, bi: int, name: bool, h2: bool) -> bool:
    """
    pre: DOM(header_bytes_on_the_wire, ri=ri, bi=bi, name=name, h2=h2)
    post: _
    """
    from vf.stubs.b import Conn, GatedApp, make_config
    from vf.stubs.clients import H2Client, H2FrameObserver, h1_request, ws_h1_handshake

    enter()
    route = _ROUTES[conc(ri, 0, len(_ROUTES) - 1)]
    blob = _INJECT[conc(bi, 0, len(_INJECT) - 1)]
    name = True if name else False
    h2 = True if h2 else False
    if not h2 and route in ("http.response.trailers", "http.response.push headers", "http.response.push path", "http.response.early_hint link"):
        return done(True, skipped="route exists on HTTP/2 only")
    if name and route in ("http.response.push path", "http.response.early_hint link"):
        return done(True, skipped="this route has a value only")
    hdr = (b"x-" + blob, b"v") if name else (b"x-t", blob)
    ws = route in ("websocket.accept headers", "websocket.http.response.start")
    if route == "http.response.start":
        steps = ["recv", ("send", {"type": "http.response.start", "status": 200, "headers": [hdr]}), ("send", {"type": "http.response.body", "body": b"ok", "more_body": False})]
    elif route == "http.response.trailers":
        steps = ["recv", ("send", {"type": "http.response.start", "status": 200, "headers": [], "trailers": True}), ("send", {"type": "http.response.body", "body": b"ok", "more_body": False}),
                 ("send", {"type": "http.response.trailers", "headers": [hdr], "more_trailers": False})]
    elif route == "http.response.push headers":
        steps = ["recv", ("send", {"type": "http.response.push", "path": "/pushed", "headers": [hdr]}), ("send", {"type": "http.response.start", "status": 200, "headers": []}),
                 ("send", {"type": "http.response.body", "body": b"ok", "more_body": False})]
    elif route == "http.response.push path":
        steps = ["recv", ("send", {"type": "http.response.push", "path": "/" + blob.decode("latin1"), "headers": []}), ("send", {"type": "http.response.start", "status": 200, "headers": []}),
                 ("send", {"type": "http.response.body", "body": b"ok", "more_body": False})]
    elif route == "http.response.early_hint link":
        steps = ["recv", ("send", {"type": "http.response.early_hint", "links": [blob]}), ("send", {"type": "http.response.start", "status": 200, "headers": []}),
                 ("send", {"type": "http.response.body", "body": b"ok", "more_body": False})]
    elif route == "websocket.accept headers":
        steps = ["recv", ("send", {"type": "websocket.accept", "headers": [hdr]}), ("send", {"type": "websocket.close", "code": 1000})]
    else:
        steps = ["recv", ("send", {"type": "websocket.http.response.start", "status": 403, "headers": [hdr]}), ("send", {"type": "websocket.http.response.body", "body": b"no", "more_body": False})]
    conn = Conn(None, make_config(), alpn="h2" if h2 else "http/1.1")
    app = GatedApp(conn.ctx, lambda scope, idx: steps if idx == 0 else ["recv", ("send", {"type": "http.response.start", "status": 200, "headers": []}),
                                                                         ("send", {"type": "http.response.body", "body": b"pushed", "more_body": False})], gated=False)
    conn.proto.app = app
    conn.proto.protocol.app = app
    if h2:
        c = H2Client(enable_push=True)
        if ws:
            c.request(1, b"CONNECT", b"/ws", [(b"sec-websocket-version", b"13")], end_stream=False,
                      extra_pseudo=[(b":protocol", b"websocket"), (b":scheme", b"http"), (b":authority", b"example.com"), (b":path", b"/ws")])
        else:
            c.request(1, b"GET", b"/r", headers=[(b"te", b"trailers")], end_stream=True)
        conn.feed(c.take())
        raw = conn.take()
        o = H2FrameObserver()
        o.feed(raw)
        seen = []
        for st in o.streams.values():
            for hs in [st.headers or [], st.trailers or []] + list(st.informational):
                seen += list(hs)
        seen += getattr(o, "pushed", [])
    else:
        conn.feed(ws_h1_handshake() if ws else h1_request("GET", b"/r", [(b"Host", b"example.com")]))
        raw = conn.out.peek()
        seen = []
    bad = (b"\r", b"\n", b"\x00")
    field = (b"x-" + blob) if name else blob  # what the application supplied for the name or the value
    illegal = any(b in field.strip() for b in bad)  # must be refused: something illegal is left inside after trimming
    may_refuse = any(b in field for b in bad)  # CR/LF at the very ends may be trimmed or refused
    inst = app.instances[0] if app.instances else None
    why = ""
    if inst is None:
        why = "no application instance"
    elif conn.sched.errors:
        why = "exception escaped a task: %r" % (conn.sched.errors[0],)
    elif any(b"\r" in n or b"\n" in n or b"\x00" in n or b"\r" in v or b"\n" in v or b"\x00" in v for n, v in seen):
        why = f"CR/LF/NUL inside a header on the wire: {[(n, v) for n, v in seen if n.startswith(b'x-') or n in (b'link', b':path')]!r}"
    elif b"x-injected" in raw:
        why = "the application's bytes became a header of their own on the wire"
    elif illegal and not inst.send_errors:
        why = f"{route} with {blob!r} in the {'name' if name else 'value'} was accepted silently"
    elif not may_refuse and inst.send_errors:
        why = f"legal header bytes {blob!r} refused: {inst.send_errors!r}"
    return done(why == "", route=route, blob=blob, where="name" if name else "value", carrier="h2" if h2 else "h1", why=why)


# ------------------------------------------------------------------ messages after completion / after the client has gone, through the real protocols

_LATE = [
    ("a body chunk", {"type": "http.response.body", "body": b"late", "more_body": False}),
    ("a second response start", {"type": "http.response.start", "status": 200, "headers": []}),
    ("trailers", {"type": "http.response.trailers", "headers": [(b"x-t", b"1")], "more_trailers": False}),
    ("a push", {"type": "http.response.push", "path": "/p", "headers": []}),
    ("an early hint", {"type": "http.response.early_hint", "links": [b"</s.css>; rel=preload"]}),
    ("an unknown message type", {"type": "not.a.real.type"}),
    ("websocket.send on an http scope", {"type": "websocket.send", "text": "x"}),
]


@harness(
    "C12",
    dom={"mi": (0, len(_LATE) - 1), "h2": "bool", "when": (0, 1), "flavour": (0, 1)},
    split={"mi": "each"},
    witnesses=[{"mi": 0, "h2": False, "when": 0, "flavour": 0}, {"mi": 3, "h2": True, "when": 0, "flavour": 1}, {"mi": 0, "h2": False, "when": 1, "flavour": 0}],
    budget=100,
    per_path=60,
    bounds="7 HTTP messages sent by the application after its response has completed, or (body chunk without a start) after the client has gone, through the real H11Protocol / H2Protocol (the stream alone does not know it has been closed); both _handle flavours",
    encodes=["hypercorn/protocol/http_stream.py::HTTPStream.app_send", "hypercorn/protocol/h11.py::H11Protocol.stream_send", "hypercorn/protocol/h2.py::H2Protocol.stream_send"],
    stubs=["tier B runtime"],
)
def late_messages_through_protocol(mi: int, h2: bool, when: int, flavour: int) -> bool:
    """
    pre: DOM(late_messages_through_protocol, mi=mi, h2=h2, when=when, flavour=flavour)
    post: _
    """
    from vf.stubs.b import Conn, GatedApp, make_config, open_gates
    from vf.stubs.clients import H2Client, h1_parse, h1_request

    enter()
    name, msg = _LATE[conc(mi, 0, len(_LATE) - 1)]
    h2 = True if h2 else False
    when = conc(when, 0, 1)
    flavour = "asyncio" if conc(flavour, 0, 1) == 0 else "trio"
    if when == 0:
        steps = ["recv", ("send", {"type": "http.response.start", "status": 200, "headers": [(b"content-length", b"2")]}),
                 ("send", {"type": "http.response.body", "body": b"ok", "more_body": False}), ("send", dict(msg))]
        late_step = 3
    else:
        if name != "a body chunk":
            return done(True, skipped="after the client has gone only the body-before-start case is specified (sends after closure are otherwise no-ops, C03)")
        steps = ["recv", "recv_until_disconnect", ("send", dict(msg))]
        late_step = 2
    conn = Conn(None, make_config(), alpn="h2" if h2 else "http/1.1", flavour=flavour)
    app = GatedApp(conn.ctx, lambda scope, idx: steps, gated=False)
    conn.proto.app = app
    conn.proto.protocol.app = app
    if h2:
        c = H2Client()
        c.request(1, b"GET", b"/r", end_stream=True)
        conn.feed(c.take())
        if when == 1:
            c.reset(1)
            conn.feed(c.take())
        c.feed(conn.take())
    else:
        conn.feed(h1_request("GET", b"/r", [(b"Host", b"example.com")]))
        if when == 1:
            conn.eof()
    conn.sched.run()
    inst = app.instances[0] if app.instances else None
    why = ""
    if inst is None:
        why = "no application instance"
    elif when == 0:
        errs = [e for st, e in inst.send_errors if st == late_step]
        if not errs:
            why = f"{name} after the response had completed was accepted silently"
        elif h2:
            st = c.streams[1]
            c.feed(conn.take())
            if st.status != 200 or st.data != b"ok" or st.ended != 1 or c.errors:
                why = f"the completed response was disturbed: {st!r} {c.errors}"
        else:
            resps, err, closed, trailing = h1_parse(conn.out.peek(), [("GET", b"/r")])
            if err or len(resps) != 1 or not resps[0].complete or trailing:
                why = f"bytes on the wire beyond the completed response: {resps!r} {err} {trailing[:40]!r}"
    else:
        # the client has gone: the message is either refused or dropped, nothing may be written
        if conn.sched.errors:
            why = "exception escaped a task: %r" % (conn.sched.errors[0],)
    if not why and conn.sched.errors:
        why = "exception escaped a task: %r" % (conn.sched.errors[0],)
    return done(why == "", message=name, carrier="h2" if h2 else "h1", when=["after completion", "after the client has gone"][when], flavour=flavour, why=why)
