#!/bin/bash
# usage: vf/seedtest.sh <patch.diff> <Cnn> [more check ids...]   (applies the patch to /repo, runs the checks, reverts)
set -u
patch=$1; shift
cd /repo && git diff --quiet || { echo "repo dirty"; exit 9; }
git -C /repo apply "$patch" || { echo "patch does not apply"; exit 9; }
rc_all=0
for id in "$@"; do
  out=$(cd /verif && ./check $id --no-evidence 2>&1)
  rc=$?
  echo "$out" | grep "^$id \[\|^VIOLATION\|BROKEN" | cut -c1-220 | head -6
  echo "== $id exit=$rc"
  [ $rc -ne 0 ] && rc_all=1
done
git -C /repo checkout -- .
rm -f /verif/replays/*.json
exit $rc_all
