"""Tier C (asyncio): the real asyncio machinery on a virtual clock with in-memory transports.

VLoop is an asyncio.BaseEventLoop whose selector never touches the OS: `select(timeout)`
advances a virtual clock.  Real asyncio.StreamReader / StreamReaderProtocol / StreamWriter,
asyncio.start_server / base_events.Server, Tasks, TaskGroups, wait_for, locks and events run
unchanged on it.  Below them sits FakeTransport, which implements the documented
transport/protocol contract and lets the harness inject EOF, resets, write failures and
"peer stops reading" (pause_writing / resume_writing).
"""
from __future__ import annotations

import asyncio
import heapq
import socket as _socket
from asyncio import events
from typing import Any, Callable, Dict, List, Optional, Tuple

from vf.rt import NoTracing, is_tracing
from vf.stubs.b import NativeBuf, native_bytes


class Deadlock(Exception):
    pass


class _Selector:
    def __init__(self, loop: "VLoop") -> None:
        self.loop = loop

    def select(self, timeout=None):
        if timeout is None:
            raise Deadlock("nothing ready and nothing scheduled")
        if timeout > 0:
            self.loop._now += timeout
        return []

    def close(self) -> None:
        pass

    def get_map(self):
        return {}


class VLoop(asyncio.BaseEventLoop):
    def __init__(self) -> None:
        super().__init__()
        self._now = 0.0
        self._clock_resolution = 1e-9
        self._selector = _Selector(self)
        self.listeners: Dict[Any, Tuple[Callable, Any]] = {}  # listening sock -> (protocol_factory, server)
        self.exceptions: List[dict] = []
        self.set_exception_handler(lambda loop, ctx: self.exceptions.append(ctx))

    def time(self) -> float:
        return self._now

    def _process_events(self, event_list) -> None:
        pass

    def _write_to_self(self) -> None:
        pass

    # -- server side of create_server (used by asyncio.start_server)
    def _start_serving(self, protocol_factory, sock, sslcontext=None, server=None, backlog=100, ssl_handshake_timeout=None, ssl_shutdown_timeout=None) -> None:
        self.listeners[sock] = (protocol_factory, server)

    def _stop_serving(self, sock) -> None:
        self.listeners.pop(sock, None)
        try:
            sock.close()
        except Exception:
            pass

    def connect(self, sock, peer=("192.0.2.9", 4444)) -> Optional["FakeTransport"]:
        """A client connects to a listening socket; None when nobody accepts there."""
        if sock not in self.listeners:
            return None
        factory, server = self.listeners[sock]
        protocol = factory()
        tr = FakeTransport(self, protocol, server=server, peer=peer, local=sock.getsockname())
        return tr

    # -- driving
    def _enter(self):
        self._check_closed()
        self._thread_id = __import__("threading").get_ident()
        self._old = events._get_running_loop()
        events._set_running_loop(self)

    def _leave(self):
        self._thread_id = None
        events._set_running_loop(None)

    def run_until(self, t_end: float, max_iterations: int = 200000) -> None:
        """Run every callback that is ready, and every timer due at or before t_end."""
        self._enter()
        n = 0
        try:
            while True:
                n += 1
                if n > max_iterations:
                    raise RuntimeError("virtual loop iteration limit: something is spinning")
                while self._scheduled and self._scheduled[0]._cancelled:
                    h = heapq.heappop(self._scheduled)
                    h._scheduled = False
                    self._timer_cancelled_count = max(0, self._timer_cancelled_count - 1)
                if self._ready:
                    self._run_once()
                elif self._scheduled and self._scheduled[0]._when <= t_end:
                    self._run_once()
                else:
                    break
        finally:
            self._leave()
        if t_end != float("inf") and t_end > self._now:
            self._now = t_end

    def settle(self) -> None:
        """Run to quiescence at the current instant."""
        self.run_until(self._now)

    def advance(self, dt: float) -> None:
        self.run_until(self._now + dt)

    def shutdown(self) -> None:
        """Cancel what is left and close the loop (an unclosed loop is repr()-ed from __del__, which is
        very expensive under the tracer)."""
        try:
            import asyncio as _a

            for t in list(_a.all_tasks(self)):
                if not t.done():
                    t.cancel()
            self.run_until(self._now)
        except BaseException:  # noqa: BLE001
            pass
        try:
            self._ready.clear()
            self._scheduled.clear()
            self.close()
        except BaseException:  # noqa: BLE001
            pass

    def pending_timers(self) -> int:
        return sum(1 for h in self._scheduled if not h._cancelled)


class FakeSocket:
    def __init__(self, family=_socket.AF_INET, peer=("192.0.2.9", 4444), local=("198.51.100.1", 8080)) -> None:
        self.family = family
        self._peer = peer
        self._local = local
        self.type = _socket.SOCK_STREAM
        self.closed = False

    def getpeername(self):
        return self._peer

    def getsockname(self):
        return self._local

    def fileno(self) -> int:
        return 99

    def close(self) -> None:
        self.closed = True

    def setblocking(self, flag) -> None:
        pass

    def listen(self, backlog=100) -> None:
        pass

    def __hash__(self) -> int:
        return id(self)


class FakeSSLObject:
    def __init__(self, alpn: Optional[str]) -> None:
        self.alpn = alpn

    def selected_alpn_protocol(self):
        return self.alpn


class FakeTransport(asyncio.Transport):
    """In-memory stand-in for a selector socket transport (server side of one connection)."""

    def __init__(self, loop: VLoop, protocol, server=None, peer=("192.0.2.9", 4444), local=("198.51.100.1", 8080), alpn: Optional[str] = None, tls: bool = False) -> None:
        super().__init__()
        self.loop = loop
        self.protocol = protocol
        self.server = server
        self.sock = FakeSocket(peer=peer, local=local)
        self.ssl_object = FakeSSLObject(alpn) if tls else None
        self.out = NativeBuf()
        self.writes: List[Tuple[float, int]] = []  # (virtual time, length)
        self.closing = False
        self.closed_at: Optional[float] = None  # when the server asked to close (close()/abort()), not when the peer broke the connection
        self.torn_down_at: Optional[float] = None
        self.lost = False
        self.eof_written = False
        self.write_fail_at: Optional[int] = None
        self.reading_paused = False
        self.writing_paused = False
        self.held: List[bytes] = []
        self.pause_at: Optional[int] = None  # the peer stops reading once this many writes have reached it
        self._close_pending = False
        if server is not None:
            server._attach()
        loop.call_soon(protocol.connection_made, self)

    # -- transport API
    def get_extra_info(self, name, default=None):
        if name == "socket":
            return self.sock
        if name == "ssl_object":
            return self.ssl_object
        if name == "peername":
            return self.sock.getpeername()
        if name == "sockname":
            return self.sock.getsockname()
        return default

    def is_closing(self) -> bool:
        return self.closing

    def write(self, data) -> None:
        if self.lost or self.closing:
            return  # asyncio transports drop (and eventually warn about) writes after close
        if self.write_fail_at is not None and len(self.writes) >= self.write_fail_at:
            self._fatal(BrokenPipeError("injected write failure"))
            return
        d = native_bytes(data)
        if self.pause_at is not None and len(self.writes) >= self.pause_at and not self.writing_paused:
            # as a socket transport does from within write() once its buffer is over the high-water mark
            self.pause_at = None
            self.writing_paused = True
            self.protocol.pause_writing()
        if self.writing_paused:
            # accepted into the transport's buffer, but the peer receives nothing until it reads again
            self.held.append(d)
            return
        self.writes.append((self.loop.time(), len(d)))
        self.out.add(d)

    def writelines(self, lines) -> None:
        for line in lines:
            self.write(line)

    def can_write_eof(self) -> bool:
        return True

    def write_eof(self) -> None:
        self.eof_written = True

    def get_write_buffer_size(self) -> int:
        return 1 << 20 if self.writing_paused else 0

    def pause_reading(self) -> None:
        self.reading_paused = True

    def resume_reading(self) -> None:
        self.reading_paused = False

    def is_reading(self) -> bool:
        return not self.reading_paused and not self.closing

    def set_protocol(self, protocol) -> None:
        self.protocol = protocol

    def get_protocol(self):
        return self.protocol

    def close(self) -> None:
        if self.closed_at is None:
            self.closed_at = self.loop.time()
        if self.closing:
            return
        self.closing = True
        self.torn_down_at = self.loop.time()
        if self.writing_paused and self.held:
            # like a socket transport: close() first flushes what is buffered, and that cannot happen while the
            # peer is not reading - connection_lost comes when it reads again, resets, or abort() is called
            self._close_pending = True
            return
        self.loop.call_soon(self._call_connection_lost, None)

    def abort(self) -> None:
        if self.closed_at is None:
            self.closed_at = self.loop.time()
        self._fatal(None)

    def _fatal(self, exc) -> None:
        if self.lost:
            return
        if not self.closing:
            self.closing = True
            self.torn_down_at = self.loop.time()
        self.loop.call_soon(self._call_connection_lost, exc)

    def _call_connection_lost(self, exc) -> None:
        if self.lost:
            return
        self.lost = True
        try:
            self.protocol.connection_lost(exc)
        finally:
            if self.server is not None:
                self.server._detach(self) if _detach_takes_transport() else self.server._detach()
                self.server = None

    # -- what the peer does
    def peer_send(self, data: bytes) -> None:
        if not self.lost and not self.closing:
            self.loop.call_soon(self.protocol.data_received, data)

    def peer_eof(self) -> None:
        def go():
            if self.lost:
                return
            keep_open = self.protocol.eof_received()
            if not keep_open:
                self.close()

        self.loop.call_soon(go)

    def peer_reset(self) -> None:
        self._fatal(ConnectionResetError("connection reset by peer"))

    def peer_stops_reading(self) -> None:
        if not self.writing_paused and not self.lost:
            self.writing_paused = True
            self.loop.call_soon(self.protocol.pause_writing)

    def peer_resumes_reading(self) -> None:
        if self.writing_paused and not self.lost:
            self.writing_paused = False
            held, self.held = self.held, []
            for d in held:
                self.writes.append((self.loop.time(), len(d)))
                self.out.add(d)
            self.loop.call_soon(self.protocol.resume_writing)
            if self._close_pending:
                self._close_pending = False
                self.loop.call_soon(self._call_connection_lost, None)


def _detach_takes_transport() -> bool:
    import inspect

    try:
        return len(inspect.signature(asyncio.base_events.Server._detach).parameters) > 1
    except Exception:
        return False


def make_stream_pair(loop: VLoop, alpn: Optional[str] = None, tls: bool = False, peer=("192.0.2.9", 4444), local=("198.51.100.1", 8080)):
    """(reader, writer, transport): the real asyncio stream objects over a FakeTransport."""
    reader = asyncio.StreamReader(loop=loop)
    protocol = asyncio.StreamReaderProtocol(reader, loop=loop)
    transport = FakeTransport(loop, protocol, alpn=alpn, tls=tls, peer=peer, local=local)
    loop.settle()  # connection_made
    writer = asyncio.StreamWriter(transport, protocol, reader, loop)
    return reader, writer, transport
