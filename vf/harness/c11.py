"""C11 WebSocket handshake validation and lifecycle mapping."""
from __future__ import annotations

import base64
import hashlib

from hypercorn.protocol.ws_stream import Handshake

from vf.rt import DOM, MODE, conc, done, enter, harness
from vf.stubs.b import Conn, GatedApp, make_config, open_gates
from vf.stubs.clients import H2Client, WSClient, WS_KEY, h1_parse, h1_request, split_h1_head

QUICK = MODE["tier"] != "thorough"
GUID = b"258EAFA5-E914-47DA-95CA-C5AB0DC85B11"


def ref_accept_token(key: bytes) -> bytes:
    return base64.b64encode(hashlib.sha1(key + GUID).digest())


UPGRADE = [None, b"websocket", b"WebSocket", b"h2c", b"websocket, foo", b" websocket "]
CONNECTION = [None, b"Upgrade", b"keep-alive, Upgrade", b"upgrade", b"close", b"Upgrade, close"]
KEY = [None, WS_KEY, b"AAAAAAAAAAAAAAAAAAAAAA=="]
VERSION = [None, b"13", b"12", b"8, 13"]
METHOD = ["GET", "POST"]
HTTPV = [b"1.1", b"1.0"]


class _Probe:
    """Application that records the scope type it was started with and accepts websockets."""

    def __init__(self) -> None:
        self.scopes = []

    async def __call__(self, scope, receive, send, sync_spawn=None, call_soon=None):
        self.scopes.append(scope)
        if scope["type"] == "websocket":
            m = await receive()
            await send({"type": "websocket.accept"})
            while True:
                m = await receive()
                if m["type"] == "websocket.disconnect":
                    return
        else:
            while True:
                m = await receive()
                if m["type"] != "http.request" or not m.get("more_body"):
                    break
            await send({"type": "http.response.start", "status": 200, "headers": [(b"content-length", b"0")]})
            await send({"type": "http.response.body", "body": b"", "more_body": False})


def _tokens(value: bytes):
    return [t.strip().lower() for t in value.split(b",")]


@harness(
    "C11",
    dom={"ui": (0, 5), "ci": (0, 5), "ki": (0, 2), "vi": (0, 3), "mi": (0, 1), "hv": (0, 1)},
    split={"ui": "each", "ci": "each"},
    witnesses=[{"ui": 1, "ci": 1, "ki": 1, "vi": 1, "mi": 0, "hv": 0}, {"ui": 2, "ci": 2, "ki": 0, "vi": 1, "mi": 0, "hv": 0}, {"ui": 0, "ci": 0, "ki": 0, "vi": 0, "mi": 0, "hv": 0}],
    budget=100,
    per_path=60,
    bounds="HTTP/1 handshakes: 6 Upgrade values x 6 Connection values x key {absent, 2 valid} x version {absent, 13, 12, '8, 13'} x GET/POST x HTTP/1.1/1.0, sent through the real h11 parser",
    encodes=["hypercorn/protocol/h11.py::H11Protocol._create_stream", "hypercorn/protocol/ws_stream.py::Handshake.__init__", "hypercorn/protocol/ws_stream.py::Handshake.is_valid",
             "hypercorn/protocol/ws_stream.py::Handshake.accept", "hypercorn/protocol/ws_stream.py::WSStream.handle"],
    stubs=["tier B runtime"],
)
def h1_handshake_validation(ui: int, ci: int, ki: int, vi: int, mi: int, hv: int) -> bool:
    """
    pre: DOM(h1_handshake_validation, ui=ui, ci=ci, ki=ki, vi=vi, mi=mi, hv=hv)
    post: _
    """
    enter()
    up = UPGRADE[conc(ui, 0, 5)]
    co = CONNECTION[conc(ci, 0, 5)]
    key = KEY[conc(ki, 0, 2)]
    ver = VERSION[conc(vi, 0, 3)]
    method = METHOD[conc(mi, 0, 1)]
    httpv = HTTPV[conc(hv, 0, 1)]
    hs = [(b"Host", b"example.com")]
    if up is not None:
        hs.append((b"Upgrade", up))
    if co is not None:
        hs.append((b"Connection", co))
    if key is not None:
        hs.append((b"Sec-WebSocket-Key", key))
    if ver is not None:
        hs.append((b"Sec-WebSocket-Version", ver))
    if method == "POST":
        hs.append((b"Content-Length", b"0"))
    data = h1_request(method, b"/ws", hs, version=httpv)
    app = _Probe()
    conn = Conn(app, make_config())
    conn.feed(data)
    out = conn.take()
    head = split_h1_head(out)
    # ---- reference (RFC 6455 4.2.1)
    is_h2c = up is not None and up.strip().lower() == b"h2c" and method != "POST"
    if is_h2c:
        return done(True, skipped="h2c upgrade: decided by C13")
    wants_ws = (up is not None and up.strip().lower() == b"websocket" and co is not None and b"upgrade" in _tokens(co) and method == "GET")
    valid = wants_ws and httpv == b"1.1" and key is not None and ver == b"13"
    why = ""
    if head is None:
        why = "no response"
    elif valid:
        if head[0] != 101:
            why = f"valid handshake answered {head[0]}"
        elif [s["type"] for s in app.scopes] != ["websocket"]:
            why = f"application scopes {[s['type'] for s in app.scopes]}"
        else:
            hd = dict(head[1])
            if hd.get(b"sec-websocket-accept") != ref_accept_token(key):
                why = f"accept token {hd.get(b'sec-websocket-accept')!r} != {ref_accept_token(key)!r}"
            elif hd.get(b"upgrade", b"").lower() != b"websocket" or b"upgrade" not in _tokens(hd.get(b"connection", b"")):
                why = f"101 without upgrade headers: {head[1]!r}"
    elif wants_ws:
        if head[0] != 400:
            why = f"invalid websocket handshake answered {head[0]} instead of 400"
        elif app.scopes:
            why = "application started for an invalid handshake"
    else:
        # not a websocket upgrade at all: an ordinary HTTP request
        if [s["type"] for s in app.scopes] != ["http"] or head[0] != 200:
            why = f"plain request: status {head[0]}, scopes {[s['type'] for s in app.scopes]}"
    if not why and conn.sched.errors:
        why = "exception escaped a task: %r" % (conn.sched.errors[0],)
    return done(why == "", upgrade=up, connection=co, key=key, version=ver, method=method, httpv=httpv, why=why)


@harness(
    "C11",
    dom={"proto": (1, 2), "vi": (0, 3), "scheme": (0, 1), "key": "bool"},
    witnesses=[{"proto": 1, "vi": 1, "scheme": 0, "key": False}, {"proto": 2, "vi": 0, "scheme": 0, "key": False}, {"proto": 1, "vi": 1, "scheme": 0, "key": True}],
    budget=60,
    per_path=60,
    bounds="HTTP/2 CONNECT requests: :protocol {websocket, other} x sec-websocket-version {absent, 13, 12, '8, 13'} x with or without a Sec-WebSocket-Key header (a gateway translating an HTTP/1.1 upgrade may leave it in)",
    encodes=["hypercorn/protocol/h2.py::H2Protocol._create_stream", "hypercorn/protocol/ws_stream.py::Handshake.is_valid", "hypercorn/protocol/ws_stream.py::WSStream.handle"],
    stubs=["tier B runtime", "independent h2 client"],
)
def h2_handshake_validation(proto: int, vi: int, scheme: int, key: bool) -> bool:
    """
    pre: DOM(h2_handshake_validation, proto=proto, vi=vi, scheme=scheme, key=key)
    post: _
    """
    enter()
    proto = conc(proto, 1, 2)  # ordinary CONNECT (no :protocol, no :path) is decided by C04
    ver = VERSION[conc(vi, 0, 3)]
    app = _Probe()
    conn = Conn(app, make_config(), alpn="h2")
    c = H2Client()
    pseudo = [(b":scheme", b"http"), (b":authority", b"example.com"), (b":path", b"/ws")]
    if proto == 1:
        pseudo.insert(0, (b":protocol", b"websocket"))
    elif proto == 2:
        pseudo.insert(0, (b":protocol", b"other"))
    hs = [(b"sec-websocket-version", ver)] if ver is not None else []
    key = True if key else False
    if key:
        hs.append((b"sec-websocket-key", b"dGhlIHNhbXBsZSBub25jZQ=="))
    c.request(1, b"CONNECT", b"/ws", hs, end_stream=False, extra_pseudo=pseudo)
    c.request(3, b"GET", b"/sibling", end_stream=True)
    conn.feed(c.take())
    c.feed(conn.take())
    conn.feed(c.take())
    c.feed(conn.take())
    st, sib = c.streams[1], c.streams[3]
    why = ""
    valid = ver == b"13" and proto == 1
    if sib.status != 200 or sib.ended != 1:
        why = f"sibling stream affected: {sib!r} {c.errors} terminated={c.terminated}"
    elif valid:
        if st.status != 200 or "websocket" not in [s["type"] for s in app.scopes]:
            why = f"valid extended CONNECT answered {st!r} (client errors {c.errors})"
        elif any(n in (b"connection", b"upgrade") for n, v in (st.headers or [])):
            why = f"HTTP/1.1 upgrade headers in an HTTP/2 response: {st.headers!r}"
    elif ver == b"13" and proto != 1:
        pass  # CONNECT without :protocol=websocket but with a websocket version: treated as a websocket by hypercorn; unspecified here
    else:
        if st.status != 400:
            why = f"invalid CONNECT answered {st!r}"
        elif "websocket" in [s["type"] for s in app.scopes]:
            why = "application started for an invalid handshake"
    if not why and conn.sched.errors:
        why = "exception escaped a task: %r" % (conn.sched.errors[0],)
    return done(why == "", proto=proto, version=ver, key=key, why=why)


# ------------------------------------------------------------------ Handshake.accept

OFFERS = [None, b"chat", b"chat, superchat", b" chat ,superchat"]
CHOICES = [None, "chat", "superchat", "other", ""]
EXTRA = [[], [(b"x-a", b"1")], [(b"sec-websocket-protocol", b"chat")], [(b":status", b"200")], [(b"x-a", b"1"), (b"x-a", b"2")]]


@harness(
    "C11",
    dom={"oi": (0, 3), "chi": (0, 4), "xi": (0, 4), "ki": (1, 2), "v2": "bool"},
    split={"oi": "each"},
    witnesses=[{"oi": 2, "chi": 2, "xi": 1, "ki": 1, "v2": False}, {"oi": 1, "chi": 2, "xi": 0, "ki": 2, "v2": True}],
    budget=60,
    bounds="Handshake.accept: offered subprotocol list (4) x chosen subprotocol (5) x extra headers (5 lists incl. forbidden ones) x 2 keys x HTTP/1.1|2",
    encodes=["hypercorn/protocol/ws_stream.py::Handshake.accept", "hypercorn/protocol/ws_stream.py::Handshake.__init__"],
)
def handshake_accept_ref(oi: int, chi: int, xi: int, ki: int, v2: bool) -> bool:
    """
    pre: DOM(handshake_accept_ref, oi=oi, chi=chi, xi=xi, ki=ki, v2=v2)
    post: _
    """
    enter()
    offer = OFFERS[conc(oi, 0, 3)]
    choice = CHOICES[conc(chi, 0, 4)]
    extra = EXTRA[conc(xi, 0, 4)]
    key = KEY[conc(ki, 1, 2)]
    v2 = True if v2 else False
    headers = [(b"connection", b"upgrade"), (b"upgrade", b"websocket"), (b"sec-websocket-version", b"13")]
    if not v2:
        headers.append((b"sec-websocket-key", key))
    if offer is not None:
        headers.append((b"sec-websocket-protocol", offer))
    h = Handshake(headers, "2" if v2 else "1.1")
    offered = [t.strip().decode() for t in offer.split(b",")] if offer is not None else []
    try:
        status, out, conn = h.accept(choice, extra)
        err = None
    except Exception as e:  # noqa: BLE001
        err = e
    bad_extra = any(n == b"sec-websocket-protocol" or n.startswith(b":") for n, v in extra)
    bad_choice = choice is not None and choice not in offered
    if bad_extra or bad_choice:
        return done(err is not None and not h.accepted, offer=offer, choice=choice, extra=extra)
    if err is not None:
        return done(False, why=repr(err))
    ok = status == (200 if v2 else 101) and h.accepted
    d = {}
    for n, v in out:
        d.setdefault(n, []).append(v)
    if choice is not None:
        ok = ok and d.get(b"sec-websocket-protocol") == [choice.encode()]
    else:
        ok = ok and b"sec-websocket-protocol" not in d
    if not v2:
        ok = ok and d.get(b"sec-websocket-accept") == [ref_accept_token(key)]
    else:
        ok = ok and b"sec-websocket-accept" not in d
    ok = ok and out[len(out) - len(extra):] == list(extra)
    return done(ok, offer=offer, choice=choice, extra=extra, v2=v2)


# ------------------------------------------------------------------ closing orders and the disconnect code

ORDERS = ["client closes with 1000", "client closes with 1001", "client closes with 3000", "client closes without a code", "application closes (1000)",
          "application closes (4001)", "both close at once", "connection lost (EOF)", "connection lost (reset)",
          "application closes, its close frame is stuck in a slow write while the client's close arrives"]


@harness(
    "C11",
    dom={"order": (0, 9), "flavour": (0, 1), "carrier": (0, 1)},
    split={"order": "each"},
    witnesses=[{"order": 0, "flavour": 0, "carrier": 0}, {"order": 4, "flavour": 1, "carrier": 0}, {"order": 7, "flavour": 0, "carrier": 1}],
    budget=60,
    per_path=60,
    bounds="10 closing orders (client first with 1000/1001/3000/no code, application first with 1000/4001, simultaneous, EOF, reset, application close stuck in a slow write while the client's close arrives) x both worker flavours x carrier HTTP/1.1 | HTTP/2",
    encodes=["hypercorn/protocol/ws_stream.py::WSStream.handle", "hypercorn/protocol/ws_stream.py::WSStream._handle_events", "hypercorn/protocol/ws_stream.py::WSStream.app_send"],
    stubs=["tier B runtime", "independent wsproto client"],
)
def ws_disconnect_code(order: int, flavour: int, carrier: int) -> bool:
    """
    pre: DOM(ws_disconnect_code, order=order, flavour=flavour, carrier=carrier)
    post: _
    """
    enter()
    order = conc(order, 0, 9)
    carrier = conc(carrier, 0, 1)
    flavour = "asyncio" if conc(flavour, 0, 1) == 0 else "trio"
    app_closes = order in (4, 5, 6, 9)
    app_code = 4001 if order == 5 else 1000
    steps = ["recv", ("send", {"type": "websocket.accept"})]
    if app_closes:
        steps.append(("send", {"type": "websocket.close", "code": app_code}))
    steps.append("recv_until_disconnect")
    conn = Conn(None, make_config(), alpn="h2" if carrier == 1 else "http/1.1", flavour=flavour)
    app = GatedApp(conn.ctx, lambda scope, idx: steps, gated=True)
    conn.proto.app = app
    conn.proto.protocol.app = app
    ws = WSClient()
    h2c = None
    from vf.stubs.clients import ws_h1_handshake

    if carrier == 0:
        conn.feed(ws_h1_handshake())
    else:
        h2c = H2Client()
        h2c.request(1, b"CONNECT", b"/ws", [(b"sec-websocket-version", b"13")], end_stream=False,
                    extra_pseudo=[(b":protocol", b"websocket"), (b":scheme", b"http"), (b":authority", b"example.com"), (b":path", b"/ws")])
        conn.feed(h2c.take())
        h2c.feed(conn.take())
        conn.feed(h2c.take())
    open_gates(conn, app, 2)  # connect received, accepted

    def to_server(data: bytes) -> None:
        if carrier == 0:
            conn.feed(data)
        else:
            h2c.data(1, data)
            conn.feed(h2c.take())

    def from_server() -> None:
        if carrier == 0:
            out = conn.take()
            head = split_h1_head(out) if out.startswith(b"HTTP/") else None
            ws.feed(head[2] if head else out)
        else:
            h2c.feed(conn.take())
            conn.feed(h2c.take())
            ws.feed(h2c.streams[1].data)
            h2c.streams[1].data = b""

    from_server()
    if order <= 3:
        code = [1000, 1001, 3000, None][order]
        to_server(ws.send_close(code))
        want = code if code is not None else 1005
    elif order in (4, 5):
        open_gates(conn, app, 3)
        from_server()
        if ws.close is None or ws.close[0] != app_code:
            return done(False, why=f"client saw close {ws.close!r}, expected {app_code}")
        to_server(ws.send_close(app_code))  # the client's reply
        want = 1000
    elif order == 6:
        frame = ws.send_close(1000)
        open_gates(conn, app, 3)
        to_server(frame)
        want = 1000
    elif order == 9:
        frame = ws.send_close(1000)
        conn.pause()  # the peer has stopped reading: the server's close frame write is suspended
        open_gates(conn, app, 3)
        to_server(frame)
        conn.resume()
        want = 1000
    elif order == 7:
        conn.eof()
        want = 1006
    else:
        conn.reset()
        want = 1006
    open_gates(conn, app, len(steps) + 1)
    from_server()
    if not conn.server_closed and order < 7:
        conn.eof()
        open_gates(conn, app, len(steps) + 1)
    why = ""
    inst = app.instances[0] if app.instances else None
    if inst is None:
        why = "no application instance"
    else:
        discs = [m for m in inst.received if m["type"] == "websocket.disconnect"]
        if len(discs) != 1:
            why = f"{len(discs)} disconnect messages: {inst.received!r}"
        elif discs[0].get("code") != want:
            why = f"disconnect code {discs[0].get('code')!r}, expected {want}"
    if not why and order <= 3 and (ws.close is None):
        why = "server did not answer the client's close frame"
    if not why and conn.sched.errors:
        why = "exception escaped a task: %r" % (conn.sched.errors[0],)
    return done(why == "", order=ORDERS[order], flavour=flavour, carrier=["h1", "h2"][carrier], why=why)
