"""Tier C, worker level: the real hypercorn.asyncio.run.worker_serve (lifespan, asyncio.start_server,
base_events.Server, graceful shutdown) on the virtual loop with a fake listening socket."""
from __future__ import annotations

import asyncio
from typing import Any, Callable, List, Optional

import hypercorn.asyncio.run as arun
from hypercorn.config import Config, Sockets

from vf.stubs.b import make_config
from vf.stubs.vloop import FakeSocket, FakeTransport, VLoop


class WSession:
    def __init__(self, app_factory: Callable, config: Optional[Config] = None, jitter_result: Optional[int] = None) -> None:
        self.loop = VLoop()
        self.config = config or make_config()
        self.sock = FakeSocket(local=("198.51.100.1", 8080))
        self.randint_calls: List[tuple] = []

        def fake_randint(a, b):
            self.randint_calls.append((a, b))
            return a if jitter_result is None else jitter_result

        arun.randint = fake_randint  # type: ignore
        self.app = app_factory(self)
        self.trigger: Optional[asyncio.Event] = None
        self.returned_at: Optional[float] = None
        self.error: Optional[BaseException] = None
        self.fired_at: Optional[float] = None

        async def main():
            self.trigger = asyncio.Event()
            try:
                await arun.worker_serve(self.app, self.config, sockets=Sockets([], [self.sock], []), shutdown_trigger=self.trigger.wait)
            except BaseException as e:  # noqa: BLE001
                if not isinstance(e, asyncio.CancelledError):
                    self.error = e
            self.returned_at = self.loop.time()

        self.task = self.loop.create_task(main())
        self.loop.settle()

    @property
    def now(self) -> float:
        return self.loop.time()

    async def sleep(self, dt) -> None:
        await asyncio.sleep(dt)

    def listening(self) -> bool:
        return self.sock in self.loop.listeners

    def connect(self) -> Optional[FakeTransport]:
        tr = self.loop.connect(self.sock)
        self.loop.settle()
        return tr

    def feed(self, tr: FakeTransport, data: bytes) -> None:
        tr.peer_send(data)
        self.loop.settle()

    def fire(self) -> None:
        self.fired_at = self.now
        self.trigger.set()
        self.loop.settle()

    def advance(self, dt: float) -> None:
        self.loop.advance(dt)

    @property
    def returned(self) -> bool:
        return self.returned_at is not None

    def close(self) -> None:
        self.loop.shutdown()

    def alive_tasks(self) -> List[str]:
        return sorted(t.get_coro().__qualname__ for t in asyncio.all_tasks(self.loop) if not t.done())
