"""C13 protocol selection and upgrades lose no bytes and ignore segmentation."""
from __future__ import annotations

import h11

from hypercorn.protocol.h11 import H2CProtocolRequiredError, H2ProtocolAssumedError, H11Protocol
from hypercorn.typing import ConnectionState

from vf.rt import DOM, MODE, conc, done, enter, harness
from vf.stubs.b import Conn, make_config
from vf.stubs.clients import H2Client, WSClient, h1_parse, h1_request, split_h1_head, untraced, ws_h1_handshake
from vf.stubs.sched import Sched, TaskGroup, WorkerContext

QUICK = MODE["tier"] != "thorough"

UPG = [None, b"h2c", b"H2C", b" h2c ", b"websocket", b"h2c, websocket", b"h2"]


class _FakeH11:
    our_state = h11.SEND_RESPONSE
    their_state = h11.DONE
    they_are_waiting_for_100_continue = False

    def __init__(self, trailing: bytes) -> None:
        self.trailing_data = (trailing, False)
        self.sent = []

    def send(self, ev):
        self.sent.append(ev)
        return b"<%d>" % len(self.sent)


@harness(
    "C13",
    dom={"ui": (0, 6), "cl": "bool", "te": "bool", "pri": (0, 3), "trail": (0, 2), "settings": "bool", "order": (0, 2)},
    split={"ui": "each"},
    witnesses=[{"ui": 1, "cl": False, "te": False, "pri": 0, "trail": 1, "settings": True, "order": 0}, {"ui": 1, "cl": True, "te": False, "pri": 0, "trail": 2, "settings": True, "order": 2}],
    budget=60,
    bounds="_check_protocol: 7 Upgrade values x content-length present x transfer-encoding present x request line in {ordinary, PRI * HTTP/2.0, PRI /x HTTP/2.0, GET * HTTP/2.0} x trailing data {none, 5 bytes, 100 bytes} x HTTP2-Settings header present or not x header order {upgrade first, body-framing headers first, an unrelated header last}",
    encodes=["hypercorn/protocol/h11.py::H11Protocol._check_protocol", "hypercorn/protocol/h11.py::H2CProtocolRequiredError.__init__"],
    stubs=["h11.Connection replaced by a fake exposing trailing_data and recording send()"],
)
def check_protocol_table(ui: int, cl: bool, te: bool, pri: int, trail: int, settings: bool, order: int) -> bool:
    """
    pre: DOM(check_protocol_table, ui=ui, cl=cl, te=te, pri=pri, trail=trail, settings=settings, order=order)
    post: _
    """
    enter()
    up = UPG[conc(ui, 0, 6)]
    cl = True if cl else False
    te = True if te else False
    settings = True if settings else False
    pri = conc(pri, 0, 3)
    trailing = [b"", b"hello", b"x" * 100][conc(trail, 0, 2)]
    method, target, version = [(b"GET", b"/p", b"1.1"), (b"PRI", b"*", b"2.0"), (b"PRI", b"/x", b"2.0"), (b"GET", b"*", b"2.0")][pri]
    headers = [(b"host", b"example.com"), (b"x-a", b"1")]
    if up is not None:
        headers.append((b"upgrade", up))
    if settings:
        headers.append((b"http2-settings", b"AAMAAABkAAQAAP__"))
    if cl:
        headers.append((b"content-length", b"3"))
    if te:
        headers.append((b"transfer-encoding", b"chunked"))
    order = conc(order, 0, 2)
    if order == 1:
        headers.reverse()  # body-framing headers first, upgrade and the rest after them
    elif order == 2:
        headers.append((b"x-request-id", b"abc"))  # an unrelated header after the body-framing ones

    class Req:  # what h11 hands over (only the attributes _check_protocol reads)
        pass

    req = Req()
    req.method, req.target, req.http_version, req.headers = method, target, version, headers
    s = Sched()
    sent = []

    async def send(ev):
        sent.append(ev)

    p = H11Protocol(None, make_config(), WorkerContext(s), TaskGroup(s, None), ConnectionState({}), False, None, None, send)
    fake = _FakeH11(trailing)
    p.connection = fake
    box = {}

    async def go():
        try:
            await p._check_protocol(req)
        except (H2CProtocolRequiredError, H2ProtocolAssumedError) as e:
            box["e"] = e

    t = s.spawn(go(), "check")
    s.run()
    e = box.get("e")
    want_h2c = up is not None and up.strip().lower() == b"h2c" and not cl and not te
    want_prior = (not want_h2c) and pri == 1
    ok = t.done and t.exc is None
    if want_h2c:
        ok = ok and isinstance(e, H2CProtocolRequiredError) and e.data == trailing
        ok = ok and len(fake.sent) == 1 and fake.sent[0].status_code == 101
        if ok:
            ok = e.settings == ("AAMAAABkAAQAAP__" if settings else "")
            want_headers = [(b":method", method), (b":path", target)]
            for n, v in headers:
                if n == b"host":
                    want_headers.append((b":authority", v))
                want_headers.append((n, v))
            ok = ok and e.headers == want_headers
    elif want_prior:
        ok = ok and isinstance(e, H2ProtocolAssumedError) and e.data == b"PRI * HTTP/2.0\r\n\r\n" + trailing and fake.sent == []
    else:
        ok = ok and e is None and fake.sent == []
    return done(ok, upgrade=up, cl=cl, te=te, pri=pri, trail=len(trailing), settings=settings, order=order)


# ------------------------------------------------------------------ openings

OPENINGS = ["ALPN h2", "prior-knowledge preface", "h2c upgrade", "h2c upgrade + follow-up stream in the same flight", "websocket upgrade", "plain HTTP/1.1", "h2c upgrade with a body (ignored)",
            "plain HTTP/1.1 x2 pipelined", "h2c upgrade with an empty HTTP2-Settings value", "h2c upgrade without an HTTP2-Settings header", "h2c upgrade with non-default settings (small window)",
            "websocket upgrade, Connection: keep-alive, Upgrade", "websocket upgrade, Connection: keep-alive ,  upgrade"]


class _App:
    def __init__(self) -> None:
        self.scopes = []
        self.bodies = []

    async def __call__(self, scope, receive, send, sync_spawn=None, call_soon=None):
        self.scopes.append(scope)
        if scope["type"] == "websocket":
            await receive()
            await send({"type": "websocket.accept"})
            m = await receive()
            if m["type"] == "websocket.receive":
                await send({"type": "websocket.send", "text": "echo:" + (m.get("text") or "")})
            while m["type"] != "websocket.disconnect":
                m = await receive()
            return
        body = b""
        while True:
            m = await receive()
            if m["type"] != "http.request":
                break
            body += m["body"]
            if not m.get("more_body"):
                break
        self.bodies.append(body)
        payload = b"path=" + scope["raw_path"] + b";v=" + scope["http_version"].encode() + b";body=" + body
        await send({"type": "http.response.start", "status": 200, "headers": [(b"content-length", str(len(payload)).encode())]})
        await send({"type": "http.response.body", "body": payload, "more_body": False})


@untraced
def _h2c_settings_header(client: H2Client) -> bytes:
    return client.upgrade_settings


def _opening_bytes(oi: int):
    """(first flight bytes, state) for an opening."""
    st = {"oi": oi}
    if oi in (0, 1):
        c = H2Client()
        c.request(1, b"GET", b"/one", end_stream=True)
        c.request(3, b"POST", b"/three", end_stream=False)
        c.data(3, b"payload", end_stream=True)
        st["h2"] = c
        return c.take(), st
    if oi in (2, 3, 8, 9, 10):
        c = H2Client(upgrade=True, initial_window=20 if oi == 10 else None)
        hs = [(b"Host", b"example.com"), (b"Connection", b"Upgrade, HTTP2-Settings"), (b"Upgrade", b"h2c")]
        if oi == 8:
            hs.append((b"HTTP2-Settings", b""))
        elif oi != 9:
            hs.append((b"HTTP2-Settings", _h2c_settings_header(c)))
        req = h1_request("GET", b"/up", hs)
        st["h2"] = c
        data = req
        if oi == 3:
            # the client may send the preface and further streams right after the upgrade request
            c.request(3, b"POST", b"/three", end_stream=False)
            c.data(3, b"payload", end_stream=True)
            data += c.take()
        return data, st
    if oi == 4:
        ws = WSClient()
        st["ws"] = ws
        return ws_h1_handshake(), st  # RFC 6455: the client sends frames only after it has seen the 101
    if oi in (11, 12):
        # the spellings browsers and proxies use for the Connection token list
        ws = WSClient()
        st["ws"] = ws
        conn_value = b"keep-alive, Upgrade" if oi == 11 else b"keep-alive ,  upgrade"
        return h1_request("GET", b"/ws", [(b"Host", b"example.com"), (b"Upgrade", b"websocket"), (b"Connection", conn_value),
                                         (b"Sec-WebSocket-Key", b"dGhlIHNhbXBsZSBub25jZQ=="), (b"Sec-WebSocket-Version", b"13")]), st
    if oi == 5:
        return h1_request("POST", b"/plain", [(b"Host", b"example.com")], [b"abc"], "content-length"), st
    if oi == 6:
        c = H2Client(upgrade=True)
        return h1_request("POST", b"/upbody", [(b"Host", b"example.com"), (b"Connection", b"Upgrade, HTTP2-Settings"), (b"Upgrade", b"h2c"), (b"Content-Length", b"3"),
                                               (b"HTTP2-Settings", _h2c_settings_header(c)), (b"X-Request-Id", b"abc")], [b"abc"], "none") + b"abc", st
    return h1_request("GET", b"/a", [(b"Host", b"example.com")]) + h1_request("GET", b"/b", [(b"Host", b"example.com")]), st


def _run_opening(oi: int, cuts, flavour: str):
    data, st = _opening_bytes(oi)
    app = _App()
    conn = Conn(app, make_config(), alpn="h2" if oi == 0 else "http/1.1", flavour=flavour)
    pos = 0
    for c in sorted(set(min(c, len(data)) for c in cuts)) + [len(data)]:
        if c > pos:
            conn.feed(data[pos:c])
            pos = c
    obs = {"versions": [s["http_version"] + ":" + s["type"] for s in app.scopes], "paths": [s["raw_path"] for s in app.scopes]}
    why = ""
    out = conn.take()
    if oi in (0, 1, 2, 3, 8, 9, 10):
        c = st["h2"]
        if oi in (2, 3, 8, 9, 10):
            head = split_h1_head(out)
            if head is None or head[0] != 101:
                return obs, f"h2c upgrade not answered 101: {out[:80]!r}", conn
            out = head[2]
            if oi != 3:
                conn.feed(c.take())  # client preface after the 101
        for _ in range(4):  # windows of 20 bytes need a few rounds of WINDOW_UPDATEs
            c.feed(out)
            conn.feed(c.take())
            out = conn.take()
        want = {1: b"path=/one;v=2;body=" if oi < 2 else b"path=/up;v=2;body="}
        if oi in (0, 1, 3):
            want[3] = b"path=/three;v=2;body=payload"
        for sid, payload in want.items():
            s_ = c.streams.get(sid)
            if s_ is None or s_.status != 200 or s_.data != payload or s_.ended != 1:
                why = f"stream {sid}: {s_!r} data={s_.data if s_ else None!r} errors={c.errors}"
                break
        if not why and sorted(obs["versions"]) != sorted(["2:http"] * len(want)):
            why = f"scopes {obs['versions']}"
    elif oi in (4, 11, 12):
        ws = st["ws"]
        head = split_h1_head(out)
        if head is None or head[0] != 101:
            why = f"websocket upgrade not answered 101: {out[:80]!r}"
        else:
            ws.feed(head[2])
            conn.feed(ws.send_text("hi"))
            ws.feed(conn.take())
            if ws.messages != [("text", "echo:hi")]:
                why = f"frame sent together with the handshake was lost or duplicated: {ws.messages!r}"
            elif obs["versions"] != ["1.1:websocket"]:
                why = f"scopes {obs['versions']}"
    else:
        reqs = {5: [("POST", b"/plain")], 6: [("POST", b"/upbody")], 7: [("GET", b"/a"), ("GET", b"/b")]}[oi]
        bodies = {5: [b"abc"], 6: [b"abc"], 7: [b"", b""]}[oi]
        resps, err, closed, trailing = h1_parse(out, reqs)
        if err or len(resps) != len(reqs):
            why = f"{err} {resps!r}"
        else:
            for r, (m, t), b in zip(resps, reqs, bodies):
                if r.status != 200 or r.body != b"path=" + t + b";v=1.1;body=" + b or not r.complete:
                    why = f"response for {t!r}: {r!r}"
            if not why and obs["versions"] != ["1.1:http"] * len(reqs):
                why = f"scopes {obs['versions']}"
    if not why and conn.sched.errors:
        why = "exception escaped a task: %r" % (conn.sched.errors[0],)
    return obs, why, conn


_OLEN = [len(_opening_bytes(i)[0]) for i in range(len(OPENINGS))]
STRIDE = 4 if QUICK else 1


@harness(
    "C13",
    dom={"oi": (0, len(OPENINGS) - 1), "s": (0, max(_OLEN) // STRIDE + 1), "flavour": (0, 1)},
    split={"oi": "each", "s": 2},
    thorough_split={"oi": "each", "s": 8},
    witnesses=[{"oi": 2, "s": 5, "flavour": 0}, {"oi": 1, "s": 3, "flavour": 1}, {"oi": 4, "s": 30, "flavour": 0}],
    budget={"quick": 150, "thorough": 600},
    per_path=60,
    bounds="13 openings (ALPN h2, prior-knowledge preface, h2c upgrade with settings, h2c upgrade with the next stream in the same flight, websocket upgrade followed by a frame, plain request, h2c upgrade with a body, two pipelined requests, h2c upgrade with an empty / absent / non-default HTTP2-Settings value) x every two-way split of the first flight (quick: every 4th offset) x both worker flavours",
    encodes=["hypercorn/protocol/__init__.py::ProtocolWrapper.handle", "hypercorn/protocol/h11.py::H11Protocol._check_protocol", "hypercorn/protocol/h2.py::H2Protocol.initiate",
             "hypercorn/protocol/h11.py::H11Protocol._create_stream", "hypercorn/protocol/h11.py::H11WSConnection.__init__"],
    stubs=["tier B runtime", "ALPN is an attribute of the fake transport", "independent h11/h2/wsproto clients"],
)
def opening_split(oi: int, s: int, flavour: int) -> bool:
    """
    pre: DOM(opening_split, oi=oi, s=s, flavour=flavour)
    post: _
    """
    enter()
    oi = conc(oi, 0, len(OPENINGS) - 1)
    s = conc(s, 0, max(_OLEN) // STRIDE + 1) * STRIDE + (oi % STRIDE)
    if s > _OLEN[oi]:
        return done(True, skipped="split beyond the first flight")
    flavour = "asyncio" if conc(flavour, 0, 1) == 0 else "trio"
    obs, why, conn = _run_opening(oi, [s], flavour)
    return done(why == "", opening=OPENINGS[oi], s=s, flavour=flavour, why=why)
