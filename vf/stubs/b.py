"""Tier-A/B rigs: hypercorn protocol objects wired to the tier-B scheduler and recorders."""
from __future__ import annotations

from typing import Any, Callable, Dict, List, Optional, Tuple

import hypercorn.asyncio.task_group as atg
import hypercorn.config as hconfig
import hypercorn.protocol.http_stream as hhs
import hypercorn.protocol.ws_stream as hws
import hypercorn.trio.task_group as ttg
from hypercorn.config import Config
from hypercorn.events import Closed, RawData, Updated
from hypercorn.protocol import ProtocolWrapper
from hypercorn.protocol.events import Request
from hypercorn.protocol.http_stream import HTTPStream
from hypercorn.protocol.ws_stream import WSStream
from hypercorn.typing import ConnectionState

from vf.rt import NoTracing, RecordingLogger, is_tracing
from vf.seal import seal
from vf.stubs.sched import Queue, Sched, TaskGroup, WorkerContext

def native_bytes(x) -> bytes:
    """A real `bytes` object whatever the tracer made of x."""
    if is_tracing():
        from vf.seal import _conc

        with NoTracing():
            return bytes(_conc(x))
    return bytes(x)


class NativeBuf:
    """Append-only byte sink that lives outside the tracer."""

    def __init__(self) -> None:
        with NoTracing():
            self._b = bytearray()

    def add(self, data) -> None:
        d = native_bytes(data)
        with NoTracing():
            self._b += d

    def take(self) -> bytes:
        with NoTracing():
            d = bytes(self._b)
            del self._b[:]
        return d

    def peek(self) -> bytes:
        with NoTracing():
            return bytes(self._b)

    def __len__(self) -> int:
        with NoTracing():
            return len(self._b)

    def __bytes__(self) -> bytes:
        return self.peek()


NOW = 784111777.0  # Sun, 06 Nov 1994 08:49:37 GMT


def install_clock(value: float = NOW) -> None:
    """hypercorn reads the wall clock through module-level names; pin them."""
    hhs.time = lambda: value  # type: ignore
    hws.time = lambda: value  # type: ignore
    hconfig.time = lambda: value  # type: ignore


install_clock()
seal()


def make_config(**kw) -> Config:
    c = Config()
    for k, v in kw.items():
        setattr(c, k, v)
    c._log = RecordingLogger()  # type: ignore
    return c


class Rig:
    """One stream (HTTPStream/WSStream) with a recording `send`, on its own scheduler."""

    def __init__(self, kind: str = "http", config: Optional[Config] = None, ssl: bool = False, flavour: str = "asyncio",
                 client=("127.0.0.1", 5000), server=("10.0.0.1", 80)) -> None:
        self.sched = Sched()
        self.ctx = WorkerContext(self.sched)
        self.config = config or make_config()
        self.tg = TaskGroup(self.sched, atg._handle if flavour == "asyncio" else ttg._handle)
        self.events: List[Any] = []
        cls = HTTPStream if kind == "http" else WSStream
        self.stream = cls(None, self.config, self.ctx, self.tg, ssl, client, server, self._send, 1)
        self.app_msgs: List[dict] = []  # what the app received
        self.scope: Optional[dict] = None
        self.send_errors: List[BaseException] = []

    async def _send(self, event) -> None:
        self.events.append(event)

    @property
    def log(self) -> RecordingLogger:
        return self.config._log  # type: ignore

    def run(self, coro, name="drv"):
        t = self.sched.spawn(coro, name)
        self.sched.run()
        return t

    def handle(self, event):
        return self.run(self.stream.handle(event), "handle")

    def app_send(self, message):
        """Call stream.app_send; returns the exception it raised (or None)."""
        box = {}

        async def go():
            try:
                await self.stream.app_send(message)
            except Exception as e:  # noqa: BLE001
                box["e"] = e

        self.run(go(), "app_send")
        return box.get("e")

    def set_app(self, app: Callable) -> None:
        self.stream.app = app

    def request(self, method="GET", path=b"/", version="1.1", headers=None):
        return self.handle(
            Request(stream_id=1, headers=headers if headers is not None else [(b"host", b"h")], http_version=version,
                    method=method, raw_path=path, state=ConnectionState({}))
        )


def recording_app(rig: Rig, script: Optional[Callable] = None):
    """ASGI-wrapper-shaped app (scope, receive, send, sync_spawn, call_soon) that records."""

    async def app(scope, receive, send, sync_spawn=None, call_soon=None):
        rig.scope = scope
        if script is not None:
            await script(scope, receive, send)
        else:
            while True:
                m = await receive()
                rig.app_msgs.append(m)
                if m["type"] in ("http.disconnect", "websocket.disconnect"):
                    return

    return app


# ------------------------------------------------------------------------ connections


class Conn:
    """A tier-B connection: the real ProtocolWrapper driven by a reader task that mirrors
    TCPServer._read_data / protocol_send of the asyncio worker at the protocol boundary."""

    def __init__(self, app, config: Optional[Config] = None, alpn: Optional[str] = "http/1.1", ssl: bool = False,
                 flavour: str = "asyncio", sched: Optional[Sched] = None, ctx: Optional[WorkerContext] = None,
                 state: Optional[dict] = None, client=("127.0.0.1", 5000), server=("10.0.0.1", 80)) -> None:
        self.sched = sched or Sched()
        if flavour == "trio":
            self.sched.checkpoints = True
        self.ctx = ctx or WorkerContext(self.sched)
        self.config = config or make_config()
        self.flavour = flavour
        self.tg = TaskGroup(self.sched, atg._handle if flavour == "asyncio" else ttg._handle)
        self.out = NativeBuf()
        self.writes: List[bytes] = []
        self.server_closed = False
        self.closed_events = 0
        self.idle_updates: List[Tuple[int, bool]] = []
        self.write_fail_at: Optional[int] = None  # fail the n-th write (0-based) and all later ones
        self.paused = False  # peer stopped reading: writes park until resume()
        self.pause_at: Optional[int] = None  # ... or from the n-th write (0-based) on
        self._resume = self.ctx.event_class()
        self.inq = Queue(self.sched, 0)
        self.proto = ProtocolWrapper(app, self.config, self.ctx, self.tg, ConnectionState(dict(state or {})), ssl,
                                     client, server, self.protocol_send, alpn)
        self.reader = self.sched.spawn(self._reader(), "reader")
        self.sched.run()

    async def _reader(self) -> None:
        await self.proto.initiate()
        while True:
            data = await self.inq.get()
            if data is None:
                break
            await self.proto.handle(RawData(data))
            if data == b"":
                break
        await self.proto.handle(Closed())

    async def protocol_send(self, event) -> None:
        if isinstance(event, RawData):
            if self.paused or (self.pause_at is not None and len(self.writes) >= self.pause_at):
                self.parked_writes = getattr(self, "parked_writes", 0) + 1
                await self._resume.wait()
            await self.sched.checkpoint()  # trio: the send lock and send_all are checkpoints
            n = len(self.writes)
            if self.server_closed or (self.write_fail_at is not None and n >= self.write_fail_at):
                # ConnectionError from the transport
                await self.proto.handle(Closed())
                return
            d = native_bytes(event.data)
            self.writes.append(d)
            self.out.add(d)
        elif isinstance(event, Closed):
            self.closed_events += 1
            if not self.server_closed:
                self.server_closed = True
                await self.inq.put(None)  # reading ends once the transport is closed
            if self.flavour == "trio":
                await self.proto.handle(Closed())
        elif isinstance(event, Updated):
            self.idle_updates.append((self.sched.now, event.idle))

    # -- client side actions
    def feed(self, data: bytes) -> None:
        if not data:  # nothing arrived; EOF is eof()
            self.sched.run()
            return
        self.sched.spawn(self.inq.put(data), "feed")
        self.sched.run()

    def eof(self) -> None:
        self.sched.spawn(self.inq.put(b""), "eof")
        self.sched.run()

    def reset(self) -> None:
        """Connection reset: the read raises, the loop ends without a final empty read."""
        self.sched.spawn(self.inq.put(None), "reset")
        self.sched.run()

    def pause(self) -> None:
        self.paused = True

    def resume(self) -> None:
        self.paused = False
        self.pause_at = None

        async def go():
            await self._resume.set()
            await self._resume.clear()

        self.sched.spawn(go(), "resume")
        self.sched.run()

    def take(self) -> bytes:
        return self.out.take()

    @property
    def log(self) -> RecordingLogger:
        return self.config._log  # type: ignore


# ------------------------------------------------------------------------ scripted apps


class Instance:
    def __init__(self, scope) -> None:
        self.scope = scope
        self.received: List[dict] = []
        self.send_errors: List[tuple] = []  # (step, exception) raised by send()
        self.sent_ok: List[str] = []
        self.finished = False
        self.crashed = False
        self.step = 0


class GatedApp:
    """Scripted ASGI application.  `steps` is a list of actions executed in order; before step i
    the app waits for gate i (the harness opens gates one by one, so that client actions and
    faults can be placed between any two application steps).

    actions: "recv"          receive one message
             "recv_body"     receive until more_body is false (or a disconnect arrives)
             "recv_until_disconnect"
             ("send", msg)   send an ASGI message (exceptions are recorded, the app goes on)
             "raise" | "return"
    """

    def __init__(self, ctx: WorkerContext, steps_for, gated: bool = True) -> None:
        self.ctx = ctx
        self.steps_for = steps_for  # callable(scope, index) -> list of steps
        self.gated = gated
        self.instances: List[Instance] = []
        self.gates: Dict[int, Any] = {}
        self.opened = -1

    def gate(self, i: int):
        if i not in self.gates:
            self.gates[i] = self.ctx.event_class()
        return self.gates[i]

    async def __call__(self, scope, receive, send, sync_spawn=None, call_soon=None):
        inst = Instance(scope)
        idx = len(self.instances)
        self.instances.append(inst)
        steps = self.steps_for(scope, idx)
        for i, st in enumerate(steps):
            if self.gated:
                await self.gate(i).wait()
            inst.step = i
            if st == "recv":
                inst.received.append(await receive())
            elif st == "recv_body":
                while True:
                    m = await receive()
                    inst.received.append(m)
                    if m["type"] != "http.request" or not m.get("more_body"):
                        break
            elif st == "recv_until_disconnect":
                while True:
                    m = await receive()
                    inst.received.append(m)
                    if m["type"].endswith("disconnect"):
                        break
            elif st == "raise":
                inst.crashed = True
                raise RuntimeError("application failure at step %d" % i)
            elif st == "return":
                inst.finished = True
                return
            else:
                try:
                    await send(st[1])
                    inst.sent_ok.append(st[1]["type"])
                except Exception as e:  # noqa: BLE001
                    inst.send_errors.append((i, e))
        inst.finished = True


def open_gates(conn: "Conn", app: GatedApp, upto: int) -> None:
    """Open gates 0..upto-1 (idempotent) and run to quiescence."""

    async def go():
        for i in range(upto):
            await app.gate(i).set()

    conn.sched.spawn(go(), "gates")
    conn.sched.run()
