"""C08 send backpressure is applied, bounded and always released (tier A kernels)."""
from __future__ import annotations

import hypercorn.protocol.h2 as hh2
from hypercorn.protocol.h2 import BUFFER_HIGH_WATER, BufferCompleteError, StreamBuffer

from vf.rt import DOM, conc, done, enter, harness
from vf.stubs.lenbuf import LenBuf
from vf.stubs.sched import Sched

MAXN = 65536
MAXM = 16384


_LOW = hh2.BUFFER_LOW_WATER


def _install_lenbuf() -> None:
    hh2.bytearray = LenBuf  # type: ignore[attr-defined]
    hh2.bytes = LenBuf.freeze  # type: ignore[attr-defined]
    # BUFFER_LOW_WATER is the float 16384.0 (HIGH / 2); int-vs-float comparisons send z3 into
    # mixed real arithmetic (minutes per query).  Replaced by the numerically equal int.
    if isinstance(_LOW, float) and _LOW.is_integer():
        hh2.BUFFER_LOW_WATER = int(_LOW)


def _uninstall_lenbuf() -> None:
    for n in ("bytearray", "bytes"):
        if n in vars(hh2):
            delattr(hh2, n)
    hh2.BUFFER_LOW_WATER = _LOW


def _held(buf: StreamBuffer):
    b = buf.buffer
    return b.n if isinstance(b, LenBuf) else len(b)


class _SB:
    """Drives one StreamBuffer on the tier-B scheduler, checking the oracle after each op."""

    def __init__(self) -> None:
        self.s = Sched()
        self.buf = StreamBuffer(self.s.event_class())
        self.pusher = None
        self.drainer = None
        self.drain_started_nonempty = False
        self.pushed = 0
        self.popped = 0
        self.maxn = 0
        self.closed = False
        self.completed = False
        self.ok = True
        self.why = ""
        self.pop_left_empty = False

    def fail(self, why: str) -> None:
        if self.ok:
            self.ok = False
            self.why = why

    def push(self, n) -> None:
        if self.pusher is not None and not self.pusher.done:
            return  # the application is still blocked in its previous send
        if n > self.maxn:
            self.maxn = n
        expect_raise = self.completed or self.closed

        async def go():
            try:
                await self.buf.push(LenBuf(n))
            except BufferCompleteError:
                return "raised"
            return "ok"

        self.pusher = self.s.spawn(go(), "push")
        self.s.run()
        if expect_raise:
            if not (self.pusher.done and self.pusher.result == "raised"):
                self.fail("push after complete/close did not raise BufferCompleteError")
            self.pusher = None
        else:
            self.pushed = self.pushed + n
            self.pop_left_empty = False
            if self.pusher.done and self.pusher.result != "ok":
                self.fail("push raised on an open buffer")

    def pop(self, m) -> None:
        before = _held(self.buf)

        async def go():
            return await self.buf.pop(m)

        t = self.s.spawn(go(), "pop")
        self.s.run()
        if not t.done or t.exc is not None:
            self.fail("pop parked or raised")
            return
        got = t.result.n if isinstance(t.result, LenBuf) else len(t.result)
        want = before if before <= m else m
        if not (got == want):
            self.fail("pop returned a wrong amount")
        self.popped = self.popped + got
        self.pop_left_empty = before - got == 0
        if before == 0 and self.pusher is not None and not self.pusher.done:
            self.fail("pusher still parked after a pop on an empty buffer")

    def set_complete(self) -> None:
        self.buf.set_complete()
        self.completed = True

    def close(self) -> None:
        async def go():
            await self.buf.close()

        self.s.spawn(go(), "close")
        self.s.run()
        self.closed = True
        if self.s.alive():
            self.fail("a task is still parked after close()")

    def drain(self) -> None:
        if self.drainer is not None and not self.drainer.done:
            return

        async def go():
            await self.buf.drain()

        self.drainer = self.s.spawn(go(), "drain")
        self.s.run()

    def check(self) -> None:
        held = _held(self.buf)
        if not self.closed:
            if not (self.pushed == self.popped + held):
                self.fail("bytes lost or duplicated")
            if held > BUFFER_HIGH_WATER - 1 + 2 * self.maxn:
                self.fail("held data exceeds HIGH_WATER + 2*max chunk")
        if self.drainer is not None:
            if self.drainer.done:
                pass
            elif self.closed or (held == 0 and self.pop_left_empty):
                # the sender's pop that finds/leaves the buffer empty (or close) must release drain()
                self.fail("drain() still waiting although the buffer was emptied/closed")
        if self.drainer is not None and self.drainer.done and not self.closed:
            pass
        if self.s.errors:
            self.fail("exception escaped: %r" % (self.s.errors[0][1],))


def _run_ops(n_ops, kinds, sizes) -> _SB:
    sb = _SB()
    for i in range(n_ops):
        k = kinds[i]
        sz = sizes[i]
        if k == 0:
            if sz >= 1:
                sb.push(sz)
        elif k == 1:
            sb.pop(sz if sz <= MAXM else MAXM)
        elif k == 2:
            sb.set_complete()
        elif k == 3:
            sb.close()
        else:
            sb.drain()
        sb.check()
        if not sb.ok:
            break
    return sb


_W = [
    {"n": 3, "k0": 0, "k1": 1, "k2": 0, "k3": 1, "k4": 0, "k5": 0, "s0": 10, "s1": 4, "s2": 7, "s3": 16384, "s4": 1, "s5": 1},
    {"n": 3, "k0": 0, "k1": 4, "k2": 1, "k3": 2, "k4": 0, "k5": 3, "s0": 40000, "s1": 0, "s2": 16384, "s3": 0, "s4": 5, "s5": 0},
]


@harness(
    "C08",
    dom={"n": (1, 3), **{f"k{i}": (0, 4) for i in range(6)}, **{f"s{i}": (0, MAXN) for i in range(6)}},
    thorough_dom={"n": (1, 5)},
    split={"k0": "each", "k1": "each"},
    thorough_split={"k0": "each", "k1": "each", "k2": "each"},
    witnesses=_W,
    budget={"quick": 100, "thorough": 900},
    bounds="every sequence of <=3 (thorough 5) StreamBuffer operations push(n)|pop(m)|set_complete|close|drain, 1<=n<=65536, 0<=m<=16384, all sizes symbolic",
    encodes=["hypercorn/protocol/h2.py::StreamBuffer.push", "hypercorn/protocol/h2.py::StreamBuffer.pop", "hypercorn/protocol/h2.py::StreamBuffer.drain", "hypercorn/protocol/h2.py::StreamBuffer.close", "hypercorn/protocol/h2.py::StreamBuffer.set_complete"],
    stubs=["hypercorn.protocol.h2.bytearray/bytes replaced by a length-only buffer (content abstracted, length symbolic)", "worker event class = tier-B scheduler event"],
)
def stream_buffer_ops(n: int, k0: int, k1: int, k2: int, k3: int, k4: int, k5: int, s0: int, s1: int, s2: int, s3: int, s4: int, s5: int) -> bool:
    """
    pre: DOM(stream_buffer_ops, n=n, k0=k0, k1=k1, k2=k2, k3=k3, k4=k4, k5=k5, s0=s0, s1=s1, s2=s2, s3=s3, s4=s4, s5=s5)
    post: _
    """
    enter()
    _install_lenbuf()
    try:
        n = conc(n, 1, 6)
        allk = (k0, k1, k2, k3, k4, k5)
        kinds = [conc(allk[i], 0, 4) for i in range(n)]
        sizes = [s0, s1, s2, s3, s4, s5]
        sb = _run_ops(n, kinds, sizes)
        return done(sb.ok, ops=[("push", "pop", "complete", "close", "drain")[kinds[i]] for i in range(n)], sizes=sizes[:n], why=sb.why)
    finally:
        _uninstall_lenbuf()


@harness(
    "C08",
    dom={"n": (0, MAXN * 4), "flag_paused": "bool", "flag_empty": "bool", "complete": "bool", "op": (0, 1), "sz": (0, MAXN)},
    witnesses=[{"n": 10, "flag_paused": False, "flag_empty": False, "complete": False, "op": 1, "sz": 4}],
    budget=60,
    bounds="one operation (push(sz) or pop(sz)) from an arbitrary StreamBuffer pre-state (any buffer length, any event flags) satisfying the representation invariant is_empty => len==0",
    encodes=["hypercorn/protocol/h2.py::StreamBuffer.push", "hypercorn/protocol/h2.py::StreamBuffer.pop"],
    stubs=["length-only buffer"],
)
def stream_buffer_step(n: int, flag_paused: bool, flag_empty: bool, complete: bool, op: int, sz: int) -> bool:
    """
    pre: DOM(stream_buffer_step, n=n, flag_paused=flag_paused, flag_empty=flag_empty, complete=complete, op=op, sz=sz)
    post: _
    """
    enter()
    _install_lenbuf()
    try:
        if flag_empty and n != 0:
            return done(True, skipped="pre-state outside the invariant")
        s = Sched()
        buf = StreamBuffer(s.event_class())
        buf.buffer = LenBuf(n)
        buf._paused._set = True if flag_paused else False
        buf._is_empty._set = True if flag_empty else False
        buf._complete = True if complete else False
        ok = True
        if conc(op, 0, 1) == 0:
            if sz < 1:
                return done(True, skipped="empty push")

            async def go():
                try:
                    await buf.push(LenBuf(sz))
                except BufferCompleteError:
                    return "raised"
                return "ok"

            t = s.spawn(go(), "push")
            s.run()
            if complete:
                ok = t.done and t.result == "raised" and buf.buffer.n == n
            else:
                ok = buf.buffer.n == n + sz and not buf._is_empty.is_set()
                # blocks iff at/above the mark and no (possibly stale) release flag was pending
                parked = not t.done
                if n + sz < BUFFER_HIGH_WATER and parked:
                    ok = False
                if n + sz >= BUFFER_HIGH_WATER and not flag_paused and not parked:
                    ok = False
        else:
            m = sz if sz <= MAXM else MAXM

            async def go2():
                return await buf.pop(m)

            t = s.spawn(go2(), "pop")
            s.run()
            got = t.result.n
            want = n if n <= m else m
            ok = t.done and got == want and buf.buffer.n == n - want
            if buf.buffer.n == 0 and not buf._is_empty.is_set():
                ok = False
            if buf.buffer.n != 0 and buf._is_empty.is_set() and not flag_empty:
                ok = False
            # release rule: a pop that leaves the buffer at/above the mark and takes nothing
            # (the client accepts no data) must not wake the writer
            if want == 0 and n >= BUFFER_HIGH_WATER and not flag_paused and buf._paused.is_set():
                ok = False
        return done(ok, n=n, flag_paused=flag_paused, flag_empty=flag_empty, complete=complete, op=op, sz=sz)
    finally:
        _uninstall_lenbuf()


@harness(
    "C08",
    dom={"a": ("bytes", 3), "b": ("bytes", 3), "k": (0, 7)},
    witnesses=[{"a": b"ab", "b": b"c", "k": 2}],
    budget=60,
    bounds="stub validation: LenBuf agrees with bytearray on len after extend / [:k] / del [:k] for contents of length <= 3+3, 0<=k<=7",
    encodes=[],
)
def lenbuf_matches_bytearray(a: bytes, b: bytes, k: int) -> bool:
    """
    pre: DOM(lenbuf_matches_bytearray, a=a, b=b, k=k)
    post: _
    """
    enter()
    real = bytearray(a)
    fake = LenBuf(len(a))
    real.extend(b)
    fake.extend(b)
    ok = len(real) == fake.n
    ok = ok and len(bytes(real[:k])) == LenBuf.freeze(fake[:k]).n
    del real[:k]
    del fake[:k]
    ok = ok and len(real) == fake.n and (len(real) == 0) == (not fake)
    return done(ok, la=len(a), lb=len(b), k=k)


def _inv(held, paused_flag, parked, m):
    """Inductive invariant behind the bound  held < HIGH_WATER + 2*m  (m = largest chunk)."""
    if parked:
        return held < BUFFER_HIGH_WATER + 2 * m and not paused_flag
    if paused_flag:
        return held < BUFFER_HIGH_WATER
    return held < BUFFER_HIGH_WATER + m


@harness(
    "C08",
    dom={"b0": (0, 4 * MAXN), "n0": (0, MAXN), "flag": "bool", "op": (0, 1), "sz": (0, MAXN)},
    witnesses=[{"b0": 100, "n0": 0, "flag": False, "op": 0, "sz": 50}, {"b0": 30000, "n0": 5000, "flag": False, "op": 1, "sz": 16384}],
    budget=90,
    bounds="inductive step: any pre-state (held bytes, release flag, writer parked or not) satisfying the invariant, one push(1..65536) or pop(0..16384), invariant re-established; implies held < HIGH_WATER + 2*65536 after histories of any length",
    encodes=["hypercorn/protocol/h2.py::StreamBuffer.push", "hypercorn/protocol/h2.py::StreamBuffer.pop"],
    stubs=["length-only buffer", "application chunk size <= 65536"],
)
def stream_buffer_inductive(b0: int, n0: int, flag: bool, op: int, sz: int) -> bool:
    """
    pre: DOM(stream_buffer_inductive, b0=b0, n0=n0, flag=flag, op=op, sz=sz)
    post: _
    """
    enter()
    _install_lenbuf()
    try:
        s = Sched()
        buf = StreamBuffer(s.event_class())
        buf.buffer = LenBuf(b0)
        flag = True if flag else False
        buf._paused._set = flag
        pusher = None
        if n0 > 0:
            # pre-state with the writer inside push(n0): only consistent when it parks
            if flag or not _inv(b0, False, False, MAXN):
                return done(True, skipped="pre-state outside the invariant")

            async def p0():
                await buf.push(LenBuf(n0))

            pusher = s.spawn(p0(), "push0")
            s.run()
            if pusher.done:
                pusher = None
        held = buf.buffer.n
        parked = pusher is not None
        if not _inv(held, buf._paused.is_set(), parked, MAXN):
            return done(True, skipped="pre-state outside the invariant")
        if conc(op, 0, 1) == 0:
            if parked or sz < 1:
                return done(True, skipped="writer is blocked: no second push")

            async def p1():
                await buf.push(LenBuf(sz))

            pusher = s.spawn(p1(), "push1")
            s.run()
        else:
            m = sz if sz <= MAXM else MAXM

            async def p2():
                await buf.pop(m)

            s.spawn(p2(), "pop")
            s.run()
        parked2 = pusher is not None and not pusher.done
        ok = _inv(buf.buffer.n, buf._paused.is_set(), parked2, MAXN) and not s.errors
        return done(ok, b0=b0, n0=n0, flag=flag, op=op, sz=sz)
    finally:
        _uninstall_lenbuf()


# ------------------------------------------------------------------ the real event classes of both workers


def _run_real_events(flavour: str, script):
    """Run `script(buf, spawn, settle)` with a StreamBuffer built on the worker's real EventWrapper."""
    out = {}
    if flavour == "asyncio":
        import asyncio

        import hypercorn.asyncio.worker_context as awc
        from vf.stubs.vloop import VLoop

        loop = VLoop()
        tasks = []

        async def main():
            buf = StreamBuffer(awc.EventWrapper)

            def spawn(coro):
                t = loop.create_task(coro)
                tasks.append(t)
                return t

            async def settle():
                for _ in range(20):
                    await asyncio.sleep(0)

            out["r"] = await script(buf, spawn, settle, lambda t: t.done())
            for t in tasks:
                t.cancel()

        mt = loop.create_task(main())
        loop.run_until(10.0)
        exc = mt.exception() if mt.done() and not mt.cancelled() else None
        loop.shutdown()
        if exc is not None:
            raise exc
    else:
        import trio

        import hypercorn.trio.worker_context as twc
        from vf.stubs.tsess import install_trio_determinism

        install_trio_determinism()

        async def main():
            buf = StreamBuffer(twc.EventWrapper)
            done_flags = {}
            async with trio.open_nursery() as nursery:

                def spawn(coro):
                    key = len(done_flags)
                    done_flags[key] = False

                    async def run():
                        await coro
                        done_flags[key] = True

                    nursery.start_soon(run)
                    return key

                async def settle():
                    await trio.testing.wait_all_tasks_blocked()

                out["r"] = await script(buf, spawn, settle, lambda k: done_flags[k])
                nursery.cancel_scope.cancel()

        import trio.testing

        trio.run(main, clock=trio.testing.MockClock())
    return out["r"]


@harness(
    "C08",
    dom={"flavour": (0, 1), "big": (0, 2), "p0": (0, 3), "p1": (0, 3), "p2": (3, 3), "end": (0, 2)},
    thorough_dom={"p2": (0, 3)},
    split={"flavour": "each", "big": "each", "p0": "each"},
    witnesses=[{"flavour": 0, "big": 1, "p0": 1, "p1": 2, "p2": 3, "end": 0}, {"flavour": 1, "big": 2, "p0": 0, "p1": 1, "p2": 3, "end": 1}],
    budget=200,
    per_path=120,
    bounds="StreamBuffer on the real asyncio / trio EventWrapper: one push of {40000, 50000, 100000} bytes that blocks, then two pops from {0, 1000, 16384, everything} and a third that takes everything (thorough: three free pops), then {pop the rest, close, nothing}: the blocked push (and a final drain) must be released exactly when the rule says",
    encodes=["hypercorn/protocol/h2.py::StreamBuffer.push", "hypercorn/protocol/h2.py::StreamBuffer.pop", "hypercorn/protocol/h2.py::StreamBuffer.close", "hypercorn/asyncio/worker_context.py::EventWrapper.clear",
             "hypercorn/trio/worker_context.py::EventWrapper.clear", "hypercorn/trio/worker_context.py::EventWrapper.wait"],
    stubs=["real asyncio.Event on the virtual loop / real trio.Event under trio.run; real bytearray contents"],
)
def stream_buffer_real_events(flavour: int, big: int, p0: int, p1: int, p2: int, end: int) -> bool:
    """
    pre: DOM(stream_buffer_real_events, flavour=flavour, big=big, p0=p0, p1=p1, p2=p2, end=end)
    post: _
    """
    enter()
    flavour = "asyncio" if conc(flavour, 0, 1) == 0 else "trio"
    size = [40000, 50000, 100000][conc(big, 0, 2)]
    pops = [[0, 1000, 16384, 10**9][conc(p, 0, 3)] for p in (p0, p1, p2)]
    end = conc(end, 0, 2)
    from vf.rt import NoTracing, is_tracing

    async def script(buf, spawn, settle, is_done):
        why = ""
        pusher = spawn(buf.push(b"x" * size))
        await settle()
        if is_done(pusher):
            return "a push that takes the buffer over the high-water mark did not block"
        released = False
        for m in pops:
            await buf.pop(m)
            await settle()
            remaining = len(buf.buffer)
            if is_done(pusher):
                released = True
            if remaining < BUFFER_HIGH_WATER and not released:
                return f"writer still blocked although only {remaining} bytes remain buffered (below the mark)"
            if m == 0 and remaining >= BUFFER_HIGH_WATER and released and not why:
                why = "an empty pop released the writer"
        if why:
            return why
        drainer = spawn(buf.drain())
        await settle()
        if end == 0:
            await buf.pop(10**9)
        elif end == 1:
            await buf.close()
        await settle()
        if end in (0, 1):
            if not is_done(pusher):
                return "writer not released after the buffer was emptied / closed"
            if not is_done(drainer):
                return "drain() not released after the buffer was emptied / closed"
        return ""

    if is_tracing():
        # both event loops / trio.run are driven with concrete values only
        pass
    why = _run_real_events(flavour, script)
    return done(why == "", flavour=flavour, size=size, pops=pops, end=["pop the rest", "close", "nothing"][end], why=why)


# ------------------------------------------------------------------ backpressure sessions on the real workers (tier C)

from vf.rt import MODE as _MODE  # noqa: E402

MODE_QUICK = _MODE["tier"] != "thorough"
ENDINGS = ["WINDOW_UPDATE (stream and connection)", "RST_STREAM", "client EOF", "connection reset", "nothing (the client stays silent)", "WINDOW_UPDATE on the connection only",
           "WINDOW_UPDATE on the stream, then (in a later read) on the connection",
           "the client stops reading after the response head, half-closes and never reads again"]


@harness(
    "C08",
    dom={"flavour": (0, 1), "wi": (0, 3), "ci": (0, 2), "ending": (0, 7), "sibling": "bool"},
    split={"flavour": "each", "ending": "each"},
    witnesses=[{"flavour": 0, "wi": 0, "ci": 1, "ending": 0, "sibling": True}, {"flavour": 1, "wi": 1, "ci": 2, "ending": 1, "sibling": False}],
    budget={"quick": 200, "thorough": 900},
    per_path=240,
    bounds="HTTP/2 response of about 240 kB (thorough 600 kB) written in chunks of {8 kB, 48 kB, 100 kB} to a client whose stream window is {0, 100, 65535, 1000000 (the connection window is then the limit)}, optionally next to a small sibling stream; then one of 8 endings (the client stops reading mid-response and half-closes, window re-opened on both levels / on the connection only / on the stream first and the connection in a later read, RST_STREAM, EOF, reset, silence); both workers",
    encodes=["hypercorn/protocol/h2.py::StreamBuffer.push", "hypercorn/protocol/h2.py::H2Protocol._send_data", "hypercorn/protocol/h2.py::H2Protocol._handle_events", "hypercorn/protocol/h2.py::H2Protocol.handle",
             "hypercorn/asyncio/tcp_server.py::TCPServer.protocol_send", "hypercorn/trio/tcp_server.py::TCPServer.protocol_send", "hypercorn/trio/worker_context.py::EventWrapper.clear"],
    stubs=["tier C runtimes (virtual asyncio loop / trio MockClock)", "client frames are precomputed with the h2 client library (it needs no server input to grant window)", "the session body runs un-traced (concrete execution per solver-chosen choice vector): byte-level symbolic models of 100 kB buffers are out of reach"],
)
def h2_backpressure_session(flavour: int, wi: int, ci: int, ending: int, sibling: bool) -> bool:
    """
    pre: DOM(h2_backpressure_session, flavour=flavour, wi=wi, ci=ci, ending=ending, sibling=sibling)
    post: _
    """
    enter()
    from vf.session import all_out, run_session
    from vf.stubs.b import make_config
    from vf.stubs.clients import H2Client, H2FrameObserver

    flavour = "asyncio" if conc(flavour, 0, 1) == 0 else "trio"
    window = [0, 100, 65535, 1000000][conc(wi, 0, 3)]
    chunk = [8192, 49152, 100000][conc(ci, 0, 2)]
    ending = conc(ending, 0, 7)
    sibling = True if sibling else False
    TOTAL = 240000 if MODE_QUICK else 600000
    n_chunks = (TOTAL + chunk - 1) // chunk
    TOTAL = n_chunks * chunk

    def factory(env):
        log = {"accepted": 0, "returned": [], "done": False, "sib_done": False, "disconnect": None}

        async def app(scope, receive, send, sync_spawn=None, call_soon=None):
            await receive()
            if scope["raw_path"] == b"/sib":
                await send({"type": "http.response.start", "status": 200, "headers": []})
                await send({"type": "http.response.body", "body": b"sibling", "more_body": False})
                log["sib_done"] = True
                return
            await send({"type": "http.response.start", "status": 200, "headers": []})
            for i in range(n_chunks):
                await send({"type": "http.response.body", "body": b"d" * chunk, "more_body": True})
                log["accepted"] += chunk
                log["returned"].append(env.now())
            await send({"type": "http.response.body", "body": b"", "more_body": False})
            log["done"] = env.now()

        factory.log = log
        return app

    c = H2Client(initial_window=window)
    c.request(1, b"GET", b"/big", end_stream=True)
    if ending == 7:
        if sibling or window < 65535:
            return done(True, skipped="client that stops reading: one stream, windows that let DATA flow")
        # the server's writes: SETTINGS, SETTINGS ack, response HEADERS, then DATA - the client reads the first three
        acts = [("pause_at_write", 3), ("feed", c.take()), ("sleep", 1.0)]
    else:
        acts = [("feed", c.take()), ("sleep", 1.0)]
    marks = {}
    acts.append(("call", lambda env: marks.__setitem__("stalled", dict(factory.log, t=env.now()))))
    if sibling:
        c.request(3, b"GET", b"/sib", end_stream=True)
        c.window_update(3, 1000)  # the sibling has window of its own ...
        if window == 65535:
            c.window_update(0, 7)
        elif window > 65535:
            # the big stream is limited by the connection window only and competes for new connection credit:
            # one full frame for it plus the sibling's 7 bytes (the scheduler alternates between equal streams)
            c.window_update(0, 16384 + 7)  # ... and, where the big stream has used up the connection window, exactly its 7 bytes of connection credit
        acts += [("feed", c.take()), ("sleep", 0.5)]
    if ending == 0:
        c.window_update(1, 2000000)
        c.window_update(0, 2000000)
        acts.append(("feed", c.take()))
    elif ending == 1:
        c.reset(1)
        acts.append(("feed", c.take()))
    elif ending == 2:
        acts.append(("eof",))
    elif ending == 3:
        acts.append(("reset",))
    elif ending == 5:
        c.window_update(0, 2000000)
        acts.append(("feed", c.take()))
    elif ending == 7:
        acts.append(("eof",))
    elif ending == 6:
        c.window_update(1, 2000000)
        acts += [("feed", c.take()), ("sleep", 0.5)]
        c.window_update(0, 2000000)
        acts.append(("feed", c.take()))
    acts.append(("sleep", 2.0))
    # Every choice is pinned; the session itself (hundreds of kB through StreamBuffer) is executed un-traced:
    # CrossHair's byte-level model of bytearray makes one traced path cost minutes (and the trio run does not
    # terminate under the tracer), so here the solver only enumerates the choice vector.
    from vf.rt import NoTracing

    with NoTracing():
        obs = run_session(flavour, factory, make_config(keep_alive_timeout=50), acts, alpn="h2")
    log = factory.log
    o = H2FrameObserver()
    o.feed(all_out(obs))
    written = len(o.streams[1].data) if 1 in o.streams else 0
    stalled = marks.get("stalled") or {"accepted": 0}
    why = ""
    bound = 32768 + 2 * chunk + (16384 if ending == 7 else 0)  # ending 7: plus the one frame sitting in the transport
    # the windows: stream `window`, connection 65535
    deliverable = min(window, 65535)
    if obs["handler_error"] is not None:
        why = "connection handler raised %r" % (obs["handler_error"],)
    elif o.errors:
        why = f"server output does not parse: {o.errors!r}"
    elif stalled["accepted"] - min(written, deliverable) > bound:
        why = f"while the client accepted nothing more the server held {stalled['accepted'] - min(written, deliverable)} bytes for the stream (bound {bound})"
    elif sibling and not log["sib_done"]:
        why = "the stalled stream blocked its sibling"
    elif ending == 7 and not log["done"]:
        why = f"the client half-closed while the server's write was parked, but the application is still blocked in send() after accepting {log['accepted']} bytes"
    elif ending in (0, 1, 2, 3) and not log["done"] and not (ending in (1, 2, 3) and log["accepted"] < TOTAL and _app_ended(obs, log)):
        why = f"pressure ended by '{ENDINGS[ending]}' but the application is still blocked in send() after accepting {log['accepted']} bytes"
    elif (ending in (0, 6) or (ending == 5 and window == 1000000)) and not log["done"]:
        why = f"credit for everything granted ('{ENDINGS[ending]}') but the application is still blocked in send() after accepting {log['accepted']} bytes"
    elif (ending in (0, 6) or (ending == 5 and window == 1000000)) and (written != TOTAL or o.streams[1].ended != 1):
        why = f"window re-opened but only {written} of {TOTAL} bytes delivered (END_STREAM x{o.streams[1].ended})"
    elif ending == 5 and window == 65535 and written < 65535:
        why = f"connection window re-opened but the stream did not use its own window ({written} bytes delivered)"
    elif ending == 4 and log["done"]:
        why = "all sends returned although the client never accepted the data"
    return done(why == "", flavour=flavour, window=window, chunk=chunk, ending=ENDINGS[ending], sibling=sibling, why=why)


def _app_ended(obs, log) -> bool:
    return False
