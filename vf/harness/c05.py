"""C05 application failures are contained and never yield a falsely complete response."""
from __future__ import annotations

import hypercorn.asyncio.task_group as atg
import hypercorn.trio.task_group as ttg
from hypercorn.protocol.events import Body, EndBody, Response, StreamClosed
from hypercorn.protocol.http_stream import ASGIHTTPState
from hypercorn.protocol.ws_stream import ASGIWebsocketState

from vf.rt import DOM, RecordingLogger, conc, done, enter, harness
from vf.stubs.b import Conn, GatedApp, Rig, make_config, open_gates, recording_app
from vf.stubs.clients import H2Client, WSClient, h1_parse, h1_request, split_h1_head, ws_h1_handshake
from vf.stubs.sched import Sched

HOSTH = (b"Host", b"example.com")


# ------------------------------------------------------------------ _handle wrappers


class _Cfg:
    def __init__(self) -> None:
        self.log = RecordingLogger()


@harness(
    "C05",
    dom={"flavour": (0, 1), "outcome": (0, 5), "sends": (0, 2)},
    witnesses=[{"flavour": 0, "outcome": 1, "sends": 1}, {"flavour": 1, "outcome": 0, "sends": 0}],
    budget=40,
    bounds="_handle of both task-group modules x application outcome {returns, raises Exception, raises after n sends, raises ExceptionGroup, raises LookupError, ends with asyncio.CancelledError (asyncio only)} x 0..2 sends before the outcome",
    encodes=["hypercorn/asyncio/task_group.py::_handle", "hypercorn/trio/task_group.py::_handle"],
    stubs=["driven coroutine-by-coroutine on the tier-B scheduler (no event loop)"],
)
def handle_wrapper(flavour: int, outcome: int, sends: int) -> bool:
    """
    pre: DOM(handle_wrapper, flavour=flavour, outcome=outcome, sends=sends)
    post: _
    """
    enter()
    flavour = conc(flavour, 0, 1)
    outcome = conc(outcome, 0, 5)
    sends = conc(sends, 0, 2)
    handle = atg._handle if flavour == 0 else ttg._handle
    if outcome == 5 and flavour == 1:
        return done(True, skipped="trio's Cancelled cannot be raised outside a cancel scope of the real runtime")
    cfg = _Cfg()
    got = []

    async def send(m):
        got.append(m)

    async def app(scope, receive, send_, sync_spawn, call_soon):
        for i in range(sends):
            await send_({"type": "x", "i": i})
        if outcome == 1 or outcome == 2:
            raise ValueError("boom")
        if outcome == 3:
            raise ExceptionGroup("eg", [ValueError("a"), KeyError("b")])
        if outcome == 4:
            raise LookupError("lookup")
        if outcome == 5:
            # the application awaited something that was cancelled (e.g. an inner task): it ends with the
            # runtime's cancellation exception without the connection itself being torn down
            import asyncio

            raise asyncio.CancelledError()

    async def receive():
        return {}

    s = Sched()
    t = s.spawn(handle(app, cfg, {"type": "http"}, receive, send, None, None), "handle")
    s.run()
    raised = outcome not in (0, 5)
    if outcome == 5:
        # cancellation propagates, but completion must still have been signalled to the stream
        ok = t.done and got[sends:] != [] and got[sends] is None and cfg.log.count("exception") == 0
        return done(ok, flavour=flavour, outcome=outcome, sends=sends)
    ok = t.done and t.exc is None
    ok = ok and cfg.log.count("exception") == (1 if raised else 0)
    nones = [m for m in got if m is None]
    # completion is always signalled; a second None is tolerated only because streams ignore it
    ok = ok and len(nones) >= 1 and got[: sends] == [{"type": "x", "i": i} for i in range(sends)] and got[sends] is None
    ok = ok and all(m is None for m in got[sends:]) and len(nones) <= 2
    return done(ok, flavour=flavour, outcome=outcome, sends=sends)


# ------------------------------------------------------------------ app_send(None) one step


@harness(
    "C05",
    dom={"kind": (0, 1), "state": (0, 4), "closed": "bool"},
    witnesses=[{"kind": 0, "state": 0, "closed": False}, {"kind": 1, "state": 1, "closed": False}],
    budget=40,
    bounds="HTTPStream/WSStream.app_send(None) from every ASGI state x closed flag",
    encodes=["hypercorn/protocol/http_stream.py::HTTPStream.app_send", "hypercorn/protocol/ws_stream.py::WSStream.app_send"],
    stubs=["stream `send` = recorder"],
)
def app_exit_step(kind: int, state: int, closed: bool) -> bool:
    """
    pre: DOM(app_exit_step, kind=kind, state=state, closed=closed)
    post: _
    """
    enter()
    kind = conc(kind, 0, 1)
    state = conc(state, 0, 4)
    closed = True if closed else False
    if kind == 0:
        states = [ASGIHTTPState.REQUEST, ASGIHTTPState.RESPONSE, ASGIHTTPState.TRAILERS, ASGIHTTPState.CLOSED]
        if state > 3:
            return done(True, skipped="HTTP has four states")
        rig = Rig("http")
        rig.set_app(recording_app(rig))
        rig.request("GET", b"/", "1.1")
        st = states[state]
    else:
        states = [ASGIWebsocketState.HANDSHAKE, ASGIWebsocketState.CONNECTED, ASGIWebsocketState.RESPONSE, ASGIWebsocketState.CLOSED, ASGIWebsocketState.HTTPCLOSED]
        from vf.harness.c12 import _WS_HEADERS

        rig = Rig("ws")
        rig.set_app(recording_app(rig))
        rig.request("GET", b"/", "1.1", list(_WS_HEADERS))
        st = states[state]
        if st != ASGIWebsocketState.HANDSHAKE:
            rig.app_send({"type": "websocket.accept"})  # gives the stream a wsproto connection
    rig.stream.state = st
    rig.stream.closed = closed
    base_access = rig.log.count("access")
    before = len(rig.events)
    err = rig.app_send(None)
    new = rig.events[before:]
    ok = err is None
    if closed:
        ok = ok and new == []
    else:
        fresh = st in (ASGIHTTPState.REQUEST, ASGIWebsocketState.HANDSHAKE)
        resp = [e for e in new if isinstance(e, Response)]
        if fresh:
            ok = ok and len(resp) == 1 and resp[0].status_code == 500 and any(isinstance(e, EndBody) for e in new)
            ok = ok and rig.log.count("access") == base_access + 1  # exactly one access record for the 500
        else:
            ok = ok and resp == [] and not any(isinstance(e, EndBody) for e in new)
        ok = ok and isinstance(new[-1], StreamClosed) and sum(1 for e in new if isinstance(e, StreamClosed)) == 1
    return done(ok, kind=kind, state=str(st), closed=closed)


# ------------------------------------------------------------------ crash-point sessions

START = ("send", {"type": "http.response.start", "status": 200, "headers": [(b"content-length", b"6")]})
START_CHUNKED = ("send", {"type": "http.response.start", "status": 200, "headers": []})
B1 = ("send", {"type": "http.response.body", "body": b"abc", "more_body": True})
B2 = ("send", {"type": "http.response.body", "body": b"def", "more_body": False})


def _steps(c: int, kind: int, chunked: bool):
    base = ["recv_body", START_CHUNKED if chunked else START, B1, B2]
    fault = "raise" if kind == 0 else "return"
    return base[:c] + [fault] if c < 4 else base + [fault]


def _normal_steps():
    return ["recv_body", ("send", {"type": "http.response.start", "status": 200, "headers": [(b"content-length", b"2")]}),
            ("send", {"type": "http.response.body", "body": b"ok", "more_body": False})]


@harness(
    "C05",
    dom={"c": (0, 4), "kind": (0, 1), "chunked": "bool", "follow": "bool", "flavour": (0, 1), "gated": "bool"},
    split={"c": "each"},
    witnesses=[{"c": 1, "kind": 0, "chunked": False, "follow": True, "flavour": 0, "gated": False},
               {"c": 3, "kind": 0, "chunked": True, "follow": False, "flavour": 1, "gated": True},
               {"c": 4, "kind": 1, "chunked": False, "follow": True, "flavour": 0, "gated": True}],
    budget=100,
    per_path=60,
    bounds="HTTP/1.1 POST whose application fails before step c in {read body, response start, first chunk, last chunk, after completion} by raising or returning; content-length or chunked response; with/without a pipelined follow-up request; both _handle flavours; app stepped with or without pauses",
    encodes=["hypercorn/protocol/http_stream.py::HTTPStream.app_send", "hypercorn/protocol/h11.py::H11Protocol._maybe_recycle", "hypercorn/protocol/h11.py::H11Protocol.stream_send",
             "hypercorn/asyncio/task_group.py::_handle", "hypercorn/trio/task_group.py::_handle"],
    stubs=["tier B runtime"],
)
def h1_app_failure(c: int, kind: int, chunked: bool, follow: bool, flavour: int, gated: bool) -> bool:
    """
    pre: DOM(h1_app_failure, c=c, kind=kind, chunked=chunked, follow=follow, flavour=flavour, gated=gated)
    post: _
    """
    enter()
    c = conc(c, 0, 4)
    kind = conc(kind, 0, 1)
    chunked = True if chunked else False
    follow = True if follow else False
    gated = True if gated else False
    flavour = "asyncio" if conc(flavour, 0, 1) == 0 else "trio"
    data = h1_request("POST", b"/crash", [HOSTH], [b"hello"], "content-length")
    reqs = [("POST", b"/crash")]
    if follow:
        data += h1_request("GET", b"/next", [HOSTH])
        reqs.append(("GET", b"/next"))
    box = {}

    def steps_for(scope, idx):
        return _steps(c, kind, chunked) if scope["raw_path"] == b"/crash" else _normal_steps()

    conn = Conn(None, make_config(), flavour=flavour)
    app = GatedApp(conn.ctx, steps_for, gated=gated)
    conn.proto.app = app
    conn.proto.protocol.app = app
    conn.feed(data)
    if gated:
        for i in range(1, 8):
            open_gates(conn, app, i)
    resps, err, closed, trailing = h1_parse(conn.out.peek(), reqs, eof=conn.server_closed)
    why = ""
    if err and not (c in (2, 3)):
        why = err
    elif not resps:
        why = "no response at all"
    else:
        r0 = resps[0]
        if c <= 1:
            if r0.status != 500 or not r0.complete:
                why = f"expected a complete 500, got {r0!r}"
        elif c <= 3:
            if r0.complete:
                why = f"application failed mid-response but the client parsed a complete response {r0!r}"
            elif r0.status != 200:
                why = f"unexpected head {r0!r}"
            elif not conn.server_closed:
                why = "incomplete response but the connection was not closed"
            elif len(resps) > 1:
                why = "bytes after the incomplete response"
        else:
            if r0.status != 200 or r0.body != b"abcdef" or not r0.complete:
                why = f"expected the full response, got {r0!r}"
            elif follow and (len(resps) < 2 or resps[1].status != 200 or resps[1].body != b"ok" or not resps[1].complete):
                why = f"follow-up request was not served after a clean response: {resps!r}"
        for r in resps[1:]:
            if r.status is not None and not r.complete and not why:
                why = f"trailing incomplete response {r!r}"
    want_logs = 1 if kind == 0 else 0
    if not why and conn.log.count("exception") != want_logs:
        why = f"error log calls: {conn.log.count('exception')} (expected {want_logs})"
    if not why and conn.sched.errors:
        why = "exception escaped a task: %r" % (conn.sched.errors[0],)
    return done(why == "", c=c, kind=kind, chunked=chunked, follow=follow, flavour=flavour, gated=gated, why=why)


@harness(
    "C05",
    dom={"c": (0, 4), "kind": (0, 1), "flavour": (0, 1), "sib_first": "bool"},
    split={"c": "each"},
    witnesses=[{"c": 0, "kind": 0, "flavour": 0, "sib_first": False}, {"c": 4, "kind": 1, "flavour": 1, "sib_first": True}],
    budget=100,
    per_path=60,
    bounds="HTTP/2 connection with two concurrent streams; stream 1's application fails before step c (as above) by raising or returning; the sibling stream 3 completes before or after the failure; both _handle flavours",
    encodes=["hypercorn/protocol/h2.py::H2Protocol.stream_send", "hypercorn/protocol/h2.py::H2Protocol._close_stream", "hypercorn/protocol/h2.py::H2Protocol._send_data",
             "hypercorn/protocol/http_stream.py::HTTPStream.app_send"],
    stubs=["tier B runtime", "independent h2 client"],
)
def h2_app_failure(c: int, kind: int, flavour: int, sib_first: bool) -> bool:
    """
    pre: DOM(h2_app_failure, c=c, kind=kind, flavour=flavour, sib_first=sib_first)
    post: _
    """
    enter()
    c = conc(c, 0, 4)
    kind = conc(kind, 0, 1)
    sib_first = True if sib_first else False
    flavour = "asyncio" if conc(flavour, 0, 1) == 0 else "trio"

    def steps_for(scope, idx):
        if scope["raw_path"] == b"/crash":
            return ["recv"] + _steps(c, kind, True)
        return ["recv"] + _normal_steps()

    conn = Conn(None, make_config(), alpn="h2", flavour=flavour)
    app = GatedApp(conn.ctx, steps_for, gated=False)
    conn.proto.app = app
    conn.proto.protocol.app = app
    client = H2Client()
    client.request(1, b"POST", b"/crash", end_stream=False)
    client.request(3, b"POST", b"/sibling", end_stream=False)
    conn.feed(client.take())
    # the first message unblocks each application ("recv" as step 0): order decides who runs first
    order = [3, 1] if sib_first else [1, 3]
    for sid in order:
        client.data(sid, b"hello", end_stream=True)
        conn.feed(client.take())
        client.feed(conn.take())
        conn.feed(client.take())
    client.feed(conn.take())
    s1, s3 = client.streams[1], client.streams[3]
    why = ""
    if client.errors:
        why = "client protocol error: %r" % client.errors
    elif s3.status != 200 or s3.data != b"ok" or s3.ended != 1:
        why = f"sibling stream did not complete: {s3!r}"
    elif c <= 1:
        if s1.status != 500 or s1.ended != 1:
            why = f"expected 500 + END_STREAM on the failed stream: {s1!r}"
    elif c <= 3:
        if s1.ended:
            why = f"application failed mid-response but the stream ended normally: {s1!r}"
        elif s1.reset is None and client.terminated is None:
            why = f"failed stream neither reset nor connection terminated: {s1!r}"
    else:
        if s1.status != 200 or s1.data != b"abcdef" or s1.ended != 1:
            why = f"expected the full response: {s1!r}"
    want_logs = 1 if kind == 0 else 0
    if not why and conn.log.count("exception") != want_logs:
        why = f"error log calls: {conn.log.count('exception')} (expected {want_logs})"
    if not why and conn.sched.errors:
        why = "exception escaped a task: %r" % (conn.sched.errors[0],)
    return done(why == "", c=c, kind=kind, flavour=flavour, sib_first=sib_first, why=why)


def _ws_steps(c: int, kind: int):
    base = ["recv", ("send", {"type": "websocket.accept"}), ("send", {"type": "websocket.send", "text": "hello"}), "recv"]
    fault = "raise" if kind == 0 else "return"
    return base[:c] + [fault]


@harness(
    "C05",
    dom={"c": (0, 4), "kind": (0, 1), "flavour": (0, 1)},
    split={"c": "each"},
    witnesses=[{"c": 1, "kind": 0, "flavour": 0}, {"c": 3, "kind": 0, "flavour": 1}],
    budget=60,
    per_path=60,
    bounds="WebSocket over HTTP/1.1: application fails before step c in {connect received, accept, first send, second receive, end} by raising or returning; both _handle flavours",
    encodes=["hypercorn/protocol/ws_stream.py::WSStream.app_send", "hypercorn/protocol/ws_stream.py::WSStream._send_error_response", "hypercorn/protocol/h11.py::H11Protocol.stream_send"],
    stubs=["tier B runtime", "independent wsproto client"],
)
def ws_app_failure(c: int, kind: int, flavour: int) -> bool:
    """
    pre: DOM(ws_app_failure, c=c, kind=kind, flavour=flavour)
    post: _
    """
    enter()
    c = conc(c, 0, 4)
    kind = conc(kind, 0, 1)
    flavour = "asyncio" if conc(flavour, 0, 1) == 0 else "trio"
    conn = Conn(None, make_config(), flavour=flavour)
    app = GatedApp(conn.ctx, lambda scope, idx: _ws_steps(c, kind), gated=False)
    conn.proto.app = app
    conn.proto.protocol.app = app
    conn.feed(ws_h1_handshake())
    ws = WSClient()
    out = conn.take()
    head = split_h1_head(out)
    why = ""
    if head is None:
        why = "no handshake response"
    else:
        status, headers, rest = head
        if c <= 1:
            if status != 500:
                why = f"expected 500 before acceptance, got {status}"
            elif not conn.server_closed:
                why = "connection left open after the 500"
        else:
            if status != 101:
                why = f"expected 101, got {status}"
            else:
                ws.feed(rest)
                if c == 4:
                    conn.feed(ws.send_text("ping"))  # lets the application's second receive return
                    ws.feed(conn.take())
                if ws.close is None or ws.close[0] != 1011:
                    why = f"client did not get an internal-error close: {ws.close!r} msgs={ws.messages!r}"
                elif c >= 3 and ws.messages != [("text", "hello")]:
                    why = f"messages before the failure lost: {ws.messages!r}"
    want_logs = 1 if kind == 0 else 0
    if not why and conn.log.count("exception") != want_logs:
        why = f"error log calls: {conn.log.count('exception')} (expected {want_logs})"
    if not why and conn.log.count("access") != 1:
        why = f"access records: {conn.log.count('access')}"
    if not why and conn.sched.errors:
        why = "exception escaped a task: %r" % (conn.sched.errors[0],)
    return done(why == "", c=c, kind=kind, flavour=flavour, why=why)


# ------------------------------------------------------------------ the response start itself is refused and the application fails with that error

_BAD_STARTS = [
    ("pseudo header in the response headers", {"type": "http.response.start", "status": 200, "headers": [(b":status", b"200")]}),
    ("status that is not a number", {"type": "http.response.start", "status": "abc", "headers": []}),
    ("status 1000", {"type": "http.response.start", "status": 1000, "headers": []}),
    ("header value with CR LF", {"type": "http.response.start", "status": 200, "headers": [(b"x-a", b"1\r\nx-b: 2")]}),
    ("header name that is a str", {"type": "http.response.start", "status": 200, "headers": [("x-a", b"1")]}),
]


@harness(
    "C05",
    dom={"bi": (0, len(_BAD_STARTS) - 1), "h2": "bool", "flavour": (0, 1), "early": "bool"},
    split={"bi": "each"},
    witnesses=[{"bi": 0, "h2": False, "flavour": 0, "early": False}, {"bi": 3, "h2": True, "flavour": 1, "early": True}],
    budget=100,
    per_path=60,
    bounds="an application whose http.response.start is refused (5 kinds: pseudo header, non-numeric status, status 1000, CR LF in a value, str header name) and that fails with the error it got, before or after reading the body; HTTP/1.1 and HTTP/2 (next to a healthy stream); both _handle flavours",
    encodes=["hypercorn/protocol/http_stream.py::HTTPStream.app_send", "hypercorn/protocol/h11.py::H11Protocol.stream_send", "hypercorn/protocol/h2.py::H2Protocol.stream_send", "hypercorn/utils.py::build_and_validate_headers"],
    stubs=["tier B runtime", "independent h11 / h2 clients"],
)
def refused_response_start(bi: int, h2: bool, flavour: int, early: bool) -> bool:
    """
    pre: DOM(refused_response_start, bi=bi, h2=h2, flavour=flavour, early=early)
    post: _
    """
    enter()
    name, msg = _BAD_STARTS[conc(bi, 0, len(_BAD_STARTS) - 1)]
    h2 = True if h2 else False
    early = True if early else False
    flavour = "asyncio" if conc(flavour, 0, 1) == 0 else "trio"
    if h2 and name == "status 1000":
        return done(True, skipped="only h11 refuses a four-digit status; on HTTP/2 it is the application's own (ASGI does not bound the integer)")

    async def app(scope, receive, send, sync_spawn=None, call_soon=None):
        if scope["raw_path"] == b"/ok":
            await receive()
            await send({"type": "http.response.start", "status": 200, "headers": [(b"content-length", b"2")]})
            await send({"type": "http.response.body", "body": b"ok", "more_body": False})
            return
        if not early:
            while True:
                m = await receive()
                if m["type"] != "http.request" or not m.get("more_body"):
                    break
        await send(dict(msg))  # refused: the exception is the application's failure

    conn = Conn(app, make_config(), alpn="h2" if h2 else "http/1.1", flavour=flavour)
    why = ""
    if h2:
        c = H2Client()
        c.request(1, b"POST", b"/bad", end_stream=False)
        c.data(1, b"hello", end_stream=True)
        c.request(3, b"GET", b"/ok", end_stream=True)
        conn.feed(c.take())
        for _ in range(4):
            c.feed(conn.take())
            conn.feed(c.take())
        st, sib = c.streams[1], c.streams[3]
        if c.errors:
            why = f"client-side protocol errors {c.errors!r}"
        elif st.status != 500 or st.ended != 1:
            why = f"no complete 500 on the failing stream: {st!r}"
        elif sib.status != 200 or sib.data != b"ok" or sib.ended != 1:
            why = f"the healthy stream did not complete: {sib!r}"
    else:
        conn.feed(h1_request("POST", b"/bad", [HOSTH], [b"hello"], "content-length"))
        resps, err, closed, trailing = h1_parse(conn.out.peek(), [("POST", b"/bad")], eof=conn.server_closed)
        if err or len(resps) != 1 or resps[0].status != 500 or not resps[0].complete:
            why = f"expected a complete 500 ({name}), got {resps!r} {err} out={conn.out.peek()[:40]!r}"
    if not why and conn.log.count("exception") != 1:
        why = f"error log calls: {conn.log.count('exception')} (expected 1)"
    if not why and conn.sched.errors:
        why = "exception escaped a task: %r" % (conn.sched.errors[0],)
    return done(why == "", refused=name, carrier="h2" if h2 else "h1", flavour=flavour, before_reading=early, why=why)
