"""C15 graceful shutdown is orderly and bounded: the harness shares the worker-level rig of C14."""
from vf.harness.c14 import graceful_shutdown  # noqa: F401  (registers the C15 harness)
