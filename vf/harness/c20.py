"""C20 middleware semantics: proxy trust boundary, dispatch routing, HTTPS redirect."""
from __future__ import annotations

from copy import deepcopy

from hypercorn.middleware.dispatcher import _DispatcherMiddleware
from hypercorn.middleware.http_to_https import HTTPToHTTPSRedirectMiddleware
from hypercorn.middleware.proxy_fix import ProxyFixMiddleware, _get_trusted_value

from vf.rt import DOM, conc, done, enter, harness, run_coro


def _pin_seq(n, idx, alphabet, maxlen):
    n = conc(n, 0, maxlen)
    return [alphabet[conc(idx[i], 0, len(alphabet) - 1)] for i in range(n)]


class _App:
    def __init__(self) -> None:
        self.calls = []

    async def __call__(self, scope, receive, send):
        self.calls.append(scope)


def _run_mw(mw, scope):
    sent = []

    async def send(m):
        sent.append(m)

    async def receive():
        return {"type": "http.request", "body": b"", "more_body": False}

    run_coro(mw(scope, receive, send))
    return sent


# ------------------------------------------------------------------ ProxyFix, structure pass


def _join(vals, pad: bool) -> bytes:
    sep = b" , " if pad else b","
    body = sep.join(vals)
    return (b" " + body + b" ") if pad else body


@harness(
    "C20",
    dom={"m": (0, 5), "sp": (0, 5), "pad": "bool", "hops": (0, 4), "modern": "bool", "ws": "bool", "host_first": "bool"},
    split={"m": "each", "hops": "each"},
    witnesses=[{"m": 3, "sp": 1, "pad": True, "hops": 1, "modern": False, "ws": False, "host_first": True},
               {"m": 2, "sp": 2, "pad": False, "hops": 2, "modern": True, "ws": True, "host_first": False}],
    budget=60,
    bounds="forwarding headers carrying m<=5 distinct values split over 1..2 header lines at every point, padded or not, trusted_hops 0..4, legacy and modern mode, http and websocket scopes",
    encodes=["hypercorn/middleware/proxy_fix.py::ProxyFixMiddleware.__call__", "hypercorn/middleware/proxy_fix.py::_get_trusted_value"],
)
def proxy_fix_structure(m: int, sp: int, pad: bool, hops: int, modern: bool, ws: bool, host_first: bool) -> bool:
    """
    pre: DOM(proxy_fix_structure, m=m, sp=sp, pad=pad, hops=hops, modern=modern, ws=ws, host_first=host_first)
    post: _
    """
    enter()
    m = conc(m, 0, 5)
    sp = conc(sp, 0, 5)
    if sp > m:
        return done(True, skipped="split beyond list")
    hops = conc(hops, 0, 4)
    pad = True if pad else False
    modern = True if modern else False
    ws = True if ws else False
    clients = [b"10.0.0.%d" % i for i in range(m)]
    protos = [b"proto%d" % i for i in range(m)]
    hosts = [b"host%d.example" % i for i in range(m)]
    headers = []
    if host_first:
        headers.append((b"host", b"orig.example"))
    headers.append((b"x-other", b"1"))

    def lines(name, vals):
        out = []
        a, b = vals[:sp], vals[sp:]
        if a:
            out.append((name, _join(a, pad)))
        if b:
            out.append((name.title() if pad else name, _join(b, pad)))
        return out

    if modern:
        elems = [b"for=" + c + b";proto=" + p + b";host=" + h for c, p, h in zip(clients, protos, hosts)]
        headers += lines(b"forwarded", elems)
    else:
        headers += lines(b"x-forwarded-for", clients)
        headers += lines(b"x-forwarded-proto", protos)
        headers += lines(b"x-forwarded-host", hosts)
    if not host_first:
        headers.append((b"host", b"orig.example"))
    scope = {
        "type": "websocket" if ws else "http",
        "scheme": "ws" if ws else "http",
        "client": ("192.0.2.1", 4321),
        "headers": headers,
        "path": "/",
        "extra": {"nested": [1, 2]},
    }
    before = deepcopy(scope)
    app = _App()
    _run_mw(ProxyFixMiddleware(app, "modern" if modern else "legacy", hops), scope)
    if len(app.calls) != 1:
        return done(False, why="wrapped app not called exactly once")
    got = app.calls[0]
    ok = scope == before  # the caller's scope is never mutated
    if hops == 0 or m < hops:
        ok = ok and got == before
    else:
        k = m - hops
        ok = ok and got["client"] == (clients[k].decode(), 0)
        ok = ok and got["scheme"] == protos[k].decode()
        gh = [v for n, v in got["headers"] if n.lower() == b"host"]
        ok = ok and gh == [hosts[k]]
        others = [(n, v) for n, v in got["headers"] if n.lower() != b"host"]
        ok = ok and others == [(n, v) for n, v in before["headers"] if n.lower() != b"host"]
    return done(ok, m=m, sp=sp, pad=pad, hops=hops, modern=modern, ws=ws)


_PALPHA = [b",", b" ", b";", b"=", b"a", b"\xe9", b"for=", b"\t"]


@harness(
    "C20",
    dom={"n": (0, 3), "p0": (0, 7), "p1": (0, 7), "p2": (0, 7), "hops": (1, 2), "modern": "bool"},
    split={"p0": "each"},
    witnesses=[{"n": 2, "p0": 4, "p1": 0, "p2": 0, "hops": 1, "modern": False}],
    budget=60,
    bounds="attacker-controlled prefix of <=3 tokens over {',',' ',';','=','a',0xE9,'for=',TAB} prepended (as its own comma-separated element(s)) before the trusted values; trusted_hops 1..2",
    encodes=["hypercorn/middleware/proxy_fix.py::_get_trusted_value", "hypercorn/middleware/proxy_fix.py::ProxyFixMiddleware.__call__"],
)
def proxy_fix_prefix_independence(n: int, p0: int, p1: int, p2: int, hops: int, modern: bool) -> bool:
    """
    pre: DOM(proxy_fix_prefix_independence, n=n, p0=p0, p1=p1, p2=p2, hops=hops, modern=modern)
    post: _
    """
    enter()
    prefix = b"".join(_pin_seq(n, (p0, p1, p2), _PALPHA, 3))
    hops = conc(hops, 1, 2)
    modern = True if modern else False
    if modern:
        trusted = [b"for=10.9.9.1;proto=https;host=a.example", b"for=10.9.9.2;proto=http;host=b.example"]
        name = b"forwarded"
    else:
        trusted = [b"10.9.9.1", b"10.9.9.2"]
        name = b"x-forwarded-for"
    tail = b", ".join(trusted)

    def result(value: bytes):
        app = _App()
        scope = {"type": "http", "scheme": "http", "client": ("192.0.2.1", 1), "headers": [(name, value)], "path": "/"}
        _run_mw(ProxyFixMiddleware(app, "modern" if modern else "legacy", hops), scope)
        s = app.calls[0]
        return (s["client"], s["scheme"], [v for k, v in s["headers"] if k == b"host"])

    ok = result(prefix + b"," + tail) == result(tail)
    return done(ok, prefix=prefix, hops=hops, modern=modern)


# ------------------------------------------------------------------ Dispatcher routing

_PREFIXES = ["/a", "/a/b", "/b", ""]
_PERMS = [(0, 1, 2), (0, 2, 1), (1, 0, 2), (1, 2, 0), (2, 0, 1), (2, 1, 0), (0, 1), (1, 0), (2,), (1, 2), (3, 0), (0, 3)]
_CH = ["/", "a", "b"]


@harness(
    "C20",
    dom={"perm": (0, len(_PERMS) - 1), "n": (0, 4), "c0": (0, 2), "c1": (0, 2), "c2": (0, 2), "c3": (0, 2), "ws": "bool"},
    split={"perm": "each"},
    witnesses=[{"perm": 2, "n": 4, "c0": 0, "c1": 1, "c2": 0, "c3": 2, "ws": False}],
    budget=60,
    bounds="12 mount tables (orders/subsets of the prefixes /a, /a/b, /b and the empty prefix) x every request path of <=4 characters over {/,a,b}; http and websocket scopes",
    encodes=["hypercorn/middleware/dispatcher.py::_DispatcherMiddleware.__call__"],
)
def dispatcher_routing(perm: int, n: int, c0: int, c1: int, c2: int, c3: int, ws: bool) -> bool:
    """
    pre: DOM(dispatcher_routing, perm=perm, n=n, c0=c0, c1=c1, c2=c2, c3=c3, ws=ws)
    post: _
    """
    enter()
    order = _PERMS[conc(perm, 0, len(_PERMS) - 1)]
    path = "".join(_pin_seq(n, (c0, c1, c2, c3), _CH, 4))
    ws = True if ws else False
    apps = {}
    mounts = {}
    for i in order:
        apps[i] = _App()
        mounts[_PREFIXES[i]] = apps[i]
    scope = {"type": "websocket" if ws else "http", "path": path, "headers": []}
    sent = _run_mw(_DispatcherMiddleware(mounts), scope)
    # reference: first mount, in table order, whose prefix is a prefix of the path
    hit = None
    for i in order:
        p = _PREFIXES[i]
        if path[: len(p)] == p:
            hit = i
            break
    ok = True
    if hit is None:
        ok = all(not a.calls for a in apps.values())
        ok = ok and len(sent) == 2 and sent[0]["type"] == "http.response.start" and sent[0]["status"] == 404 and sent[1]["type"] == "http.response.body"
    else:
        for i, a in apps.items():
            if i == hit:
                rest = path[len(_PREFIXES[i]):]
                ok = ok and len(a.calls) == 1 and a.calls[0]["path"] == (rest if rest != "" else "/") and a.calls[0]["path"] != ""
            else:
                ok = ok and not a.calls
        ok = ok and sent == []
    return done(ok, order=[_PREFIXES[i] for i in order], path=path, ws=ws)


# ------------------------------------------------------------------ HTTPS redirect

_RAW = [b"/", b"/a", b"/a%3C", b"/a/b;c=1", b"/a%20b/", b"/%E9", b"/r", b"/r/s/t", b"/rx", b"/r/r/s"]  # the last four begin with one of the root paths
_QS = [b"", b"a=1", b"a=%20&b", b"x=%3F%23"]
_ROOT = ["", "/r", "/r/s"]
_HOSTS = [None, b"example.com", b"example.com:8080", b"[::1]:80"]


@harness(
    "C20",
    dom={"kind": (0, 4), "ri": (0, len(_RAW) - 1), "qi": (0, len(_QS) - 1), "roi": (0, len(_ROOT) - 1), "hi": (0, len(_HOSTS) - 1), "cfg": "bool", "ext": "bool"},
    split={"kind": "each", "hi": "each"},
    witnesses=[{"kind": 0, "ri": 2, "qi": 2, "roi": 1, "hi": 1, "cfg": False, "ext": True}],
    budget=60,
    bounds="scope kinds {http/http, http/https, ws/ws, ws/wss, ws over HTTP/2} x 10 raw paths (four of them beginning with the text of a root_path) x 4 query strings x 3 root_paths x 4 Host values x host configured or taken from the header x denial-response extension present or not",
    encodes=["hypercorn/middleware/http_to_https.py::HTTPToHTTPSRedirectMiddleware.__call__", "hypercorn/middleware/http_to_https.py::HTTPToHTTPSRedirectMiddleware._new_url"],
)
def https_redirect(kind: int, ri: int, qi: int, roi: int, hi: int, cfg: bool, ext: bool) -> bool:
    """
    pre: DOM(https_redirect, kind=kind, ri=ri, qi=qi, roi=roi, hi=hi, cfg=cfg, ext=ext)
    post: _
    """
    enter()
    kind = conc(kind, 0, 4)
    raw = _RAW[conc(ri, 0, len(_RAW) - 1)]
    qs = _QS[conc(qi, 0, len(_QS) - 1)]
    root = _ROOT[conc(roi, 0, len(_ROOT) - 1)]
    hosth = _HOSTS[conc(hi, 0, len(_HOSTS) - 1)]
    cfg = True if cfg else False
    ext = True if ext else False
    typ = "http" if kind < 2 else "websocket"
    scheme = ["http", "https", "ws", "wss", "ws"][kind]
    version = "2" if kind == 4 else "1.1"
    headers = [(b"x-a", b"1")] + ([(b"host", hosth)] if hosth is not None else [])
    scope = {"type": typ, "scheme": scheme, "http_version": version, "raw_path": raw, "path": raw.decode(), "query_string": qs,
             "root_path": root, "headers": headers, "extensions": {"websocket.http.response": {}} if (ext and typ == "websocket") else {}}
    app = _App()
    configured = "cfg.example" if cfg else None
    mw = HTTPToHTTPSRedirectMiddleware(app, configured)
    secure = scheme in ("https", "wss")
    host = configured if configured is not None else (hosth.decode("latin-1") if hosth is not None else None)
    if not secure and host is None and (typ == "http" or ext):
        try:
            _run_mw(mw, scope)
        except ValueError:
            return done(True, note="no host: refused with ValueError")
        return done(False, why="redirect without any host")
    sent = _run_mw(mw, scope)
    if secure:
        ok = len(app.calls) == 1 and app.calls[0] is scope and sent == []
        return done(ok, kind=kind)
    ok = not app.calls
    if typ == "websocket" and not ext:
        ok = ok and sent == [{"type": "websocket.close"}]
        return done(ok, kind=kind)
    new_scheme = "https" if (typ == "http" or version == "2") else "wss"
    want = new_scheme + "://" + host + root + raw.decode() + ("?" + qs.decode() if qs else "")
    pre = "" if typ == "http" else "websocket."
    ok = ok and len(sent) == 2 and sent[0]["type"] == pre + "http.response.start" and sent[0]["status"] == 307
    ok = ok and sent[0]["headers"] == [(b"location", want.encode())] and sent[1]["type"] == pre + "http.response.body"
    return done(ok, kind=kind, raw=raw, qs=qs, root=root, host=host)


# ------------------------------------------------------------------ Dispatcher lifespan fan-out (both flavours)


def _mount_app(completes_startup: bool, completes_shutdown: bool, log: list, name: str):
    async def app(scope, receive, send):
        if scope["type"] != "lifespan":
            return
        while True:
            m = await receive()
            log.append((name, m["type"]))
            if m["type"] == "lifespan.startup":
                if completes_startup:
                    await send({"type": "lifespan.startup.complete"})
            elif m["type"] == "lifespan.shutdown":
                if completes_shutdown:
                    await send({"type": "lifespan.shutdown.complete"})
                return

    return app


@harness(
    "C20",
    dom={"flavour": (0, 1), "k": (1, 3), "s0": "bool", "s1": "bool", "s2": "bool", "d0": "bool", "d1": "bool", "d2": "bool"},
    split={"flavour": "each", "k": "each"},
    witnesses=[{"flavour": 0, "k": 2, "s0": True, "s1": True, "s2": True, "d0": True, "d1": False, "d2": True}, {"flavour": 1, "k": 3, "s0": True, "s1": False, "s2": True, "d0": True, "d1": True, "d2": True}],
    budget=120,
    per_path=120,
    bounds="Asyncio/Trio DispatcherMiddleware lifespan fan-out over 1..3 mounts, each mount completing startup or not and shutdown or not: the aggregate complete message is forwarded exactly when every mount has completed, and every mount receives both lifespan messages",
    encodes=["hypercorn/middleware/dispatcher.py::AsyncioDispatcherMiddleware._handle_lifespan", "hypercorn/middleware/dispatcher.py::AsyncioDispatcherMiddleware.send",
             "hypercorn/middleware/dispatcher.py::TrioDispatcherMiddleware._handle_lifespan", "hypercorn/middleware/dispatcher.py::TrioDispatcherMiddleware.send"],
    stubs=["asyncio flavour on the virtual loop, trio flavour under trio.run with a MockClock; the server side of the lifespan protocol is a scripted receive()"],
)
def dispatcher_lifespan(flavour: int, k: int, s0: bool, s1: bool, s2: bool, d0: bool, d1: bool, d2: bool) -> bool:
    """
    pre: DOM(dispatcher_lifespan, flavour=flavour, k=k, s0=s0, s1=s1, s2=s2, d0=d0, d1=d1, d2=d2)
    post: _
    """
    enter()
    from hypercorn.middleware.dispatcher import AsyncioDispatcherMiddleware, TrioDispatcherMiddleware

    flavour = conc(flavour, 0, 1)
    k = conc(k, 1, 3)
    st = [True if x else False for x in (s0, s1, s2)][:k]
    sd = [True if x else False for x in (d0, d1, d2)][:k]
    log = []
    mounts = {"/m%d" % i: _mount_app(st[i], sd[i], log, "/m%d" % i) for i in range(k)}
    sent = []
    scope = {"type": "lifespan", "asgi": {}, "state": {}}
    script = [{"type": "lifespan.startup"}, {"type": "lifespan.shutdown"}]
    finished = {"v": False}
    if flavour == 0:
        import asyncio

        from vf.stubs.vloop import VLoop

        loop = VLoop()

        async def main():
            q = asyncio.Queue()
            for m in script:
                q.put_nowait(m)

            async def receive():
                if q.empty():
                    await asyncio.sleep(1000)
                m = q.get_nowait()
                await asyncio.sleep(0.1)
                return m

            async def send(m):
                sent.append(m["type"])

            await AsyncioDispatcherMiddleware(mounts)(scope, receive, send)
            finished["v"] = True

        t = loop.create_task(main())
        loop.run_until(50.0)
        if t.done() and not t.cancelled() and t.exception() is not None:
            exc = t.exception()
            loop.shutdown()
            return done(False, why="middleware raised %r" % (exc,))
        t.cancel()
        loop.run_until(51.0)
        loop.shutdown()
    else:
        import trio
        import trio.testing

        from vf.stubs.tsess import install_trio_determinism

        install_trio_determinism()

        async def main():
            msgs = list(script)

            async def receive():
                if not msgs:
                    await trio.sleep(1000)
                await trio.sleep(0.1)
                return msgs.pop(0)

            async def send(m):
                sent.append(m["type"])

            with trio.move_on_after(50):
                await TrioDispatcherMiddleware(mounts)(scope, receive, send)
                finished["v"] = True

        trio.run(main, clock=trio.testing.MockClock(autojump_threshold=0))
    want = []
    if all(st):
        want.append("lifespan.startup.complete")
    if all(sd):
        want.append("lifespan.shutdown.complete")
    ok = sent == want
    for i in range(k):
        got = [t for n, t in log if n == "/m%d" % i]
        ok = ok and got == ["lifespan.startup", "lifespan.shutdown"]
    return done(ok, flavour=["asyncio", "trio"][flavour], startup=st, shutdown=sd, sent=sent)
