#!/bin/bash
# usage: vf/seedtest_wt.sh <worktree with the change applied> <Cnn>...   (never touches /repo)
wt=$1; shift
for id in "$@"; do
  out=$(cd /verif && VERIF_REPO=$wt ./check $id --no-evidence 2>&1)
  rc=$?
  echo "$out" | grep "^$id \[\|BROKEN" | cut -c1-200 | head -3
  echo "$out" | grep -c "^VIOLATION" | sed "s/^/  violations reported: /"
  echo "== $id exit=$rc"
done
