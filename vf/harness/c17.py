"""C17 WSGI adapter conforms to PEP 3333."""
from __future__ import annotations

import hypercorn.app_wrappers as haw
from hypercorn.app_wrappers import InvalidPathError, WSGIWrapper, _build_environ

from vf.rt import DOM, NoTracing, conc, done, enter, harness
from vf.stubs.lenbuf import LenBuf
from vf.stubs.sched import Sched

_PATHS = ["/", "/a", "/r", "/r/", "/r/x%y", "/r/é", "/r/a b", "/s/x", "/r/r/x"]
_ROOTS = ["", "/r", "/r/r"]
_HDRS = [(b"x-a", b"1"), (b"x-a", b"2"), (b"content-length", b"3"), (b"content-type", b"text/x"), (b"x-b-c", b"v"), (b"accept", b"\xe9"), (b"x-a", b"")]
_QS = [b"", b"a=1", b"a=%20&b=2"]
_METHODS = ["GET", "POST", "HEAD", "PUT"]


def _latin(s: str) -> str:
    return s.encode("utf8").decode("latin1")


_VARIANTS = [  # (qi, mi, srv, cli, v2, bl)
    (0, 0, True, True, False, 0), (1, 1, False, True, False, 3), (2, 2, True, False, True, 1),
    (0, 3, False, False, True, 2), (1, 0, True, False, False, 1), (2, 1, False, True, True, 0),
]


@harness(
    "C17",
    dom={"pi": (0, len(_PATHS) - 1), "ri": (0, len(_ROOTS) - 1), "k": (0, 2), "h0": (0, 6), "h1": (0, 6), "h2": (0, 6), "h3": (0, 6),
         "var": (0, 5)},
    thorough_dom={"k": (0, 4)},
    split={"pi": "each", "ri": "each"},
    thorough_split={"pi": "each", "ri": "each", "h0": "each"},
    witnesses=[{"pi": 4, "ri": 1, "k": 2, "h0": 0, "h1": 1, "h2": 2, "h3": 0, "var": 1}],
    budget={"quick": 100, "thorough": 900},
    bounds="9 paths (escapes, non-ASCII, prefix edge cases) x 3 root_paths x every header list of <=2 (thorough 4) entries drawn from 7 (repeats, content-*, empty value, non-ASCII) x 6 variants covering 3 query strings, 4 methods, server/client present or None, HTTP/1.1|2, body length 0..3",
    encodes=["hypercorn/app_wrappers.py::_build_environ"],
)
def build_environ_ref(pi: int, ri: int, k: int, h0: int, h1: int, h2: int, h3: int, var: int) -> bool:
    """
    pre: DOM(build_environ_ref, pi=pi, ri=ri, k=k, h0=h0, h1=h1, h2=h2, h3=h3, var=var)
    post: _
    """
    enter()
    path = _PATHS[conc(pi, 0, len(_PATHS) - 1)]
    root = _ROOTS[conc(ri, 0, len(_ROOTS) - 1)]
    k = conc(k, 0, 4)
    hs = (h0, h1, h2, h3)
    headers = [_HDRS[conc(hs[i], 0, 6)] for i in range(k)]
    qi, mi, srv, cli, v2, bl = _VARIANTS[conc(var, 0, 5)]
    qs = _QS[qi]
    method = _METHODS[mi]
    body = b"xyz"[:bl]
    version = "2" if v2 else "1.1"
    scope = {"type": "http", "method": method, "path": path, "root_path": root, "query_string": qs, "http_version": version,
             "scheme": "https" if v2 else "http", "headers": headers,
             "server": ("srv.example", 8443) if srv else None, "client": ("192.0.2.7", 555) if cli else None}
    inside = path == root or root == "" or path[: len(root) + 1] == root + "/"
    prefix = path[: len(root)] == root
    try:
        env = _build_environ(scope, body)
    except InvalidPathError:
        return done(not prefix, path=path, root=root, note="refused")
    if not prefix:
        return done(False, why="path outside root_path accepted")
    if not inside:
        return done(True, skipped="root_path is a non-boundary prefix of the path: unspecified")
    rest = path[len(root):]
    want = {
        "REQUEST_METHOD": method,
        "SCRIPT_NAME": _latin(root),
        "PATH_INFO": _latin(rest if rest != "" else "/"),
        "QUERY_STRING": qs.decode("ascii"),
        "SERVER_PROTOCOL": "HTTP/" + version,
        "wsgi.url_scheme": "https" if v2 else "http",
        "wsgi.version": (1, 0),
    }
    if cli:
        want["REMOTE_ADDR"] = "192.0.2.7"
    want["SERVER_NAME"] = "srv.example" if srv else "localhost"
    hv = {}
    for n, v in headers:
        name = n.decode("latin1")
        key = {"content-length": "CONTENT_LENGTH", "content-type": "CONTENT_TYPE"}.get(name, "HTTP_" + name.upper().replace("-", "_"))
        val = v.decode("latin1")
        hv[key] = hv[key] + "," + val if key in hv else val
    want.update(hv)
    ok = True
    for key, v in want.items():
        if key not in env or env[key] != v:
            ok = False
    ok = ok and str(env["SERVER_PORT"]) == ("8443" if srv else "80")
    ok = ok and env["wsgi.input"].read() == body
    ok = ok and ("REMOTE_ADDR" in env) == cli
    # no HTTP_ variable that the request did not carry
    for key in env:
        if key.startswith("HTTP_") and key not in hv:
            ok = False
    return done(ok, path=path, root=root, headers=headers, qs=qs, method=method)


# ------------------------------------------------------------------ body limit


class _FakeBytesIO:
    def __init__(self, buf) -> None:
        self.n = buf.n if isinstance(buf, LenBuf) else len(buf)


@harness(
    "C17",
    dom={"k": (1, 3), "n0": (0, None), "n1": (0, None), "n2": (0, None), "limit": (0, None)},
    witnesses=[{"k": 2, "n0": 5, "n1": 6, "n2": 0, "limit": 11}, {"k": 2, "n0": 5, "n1": 7, "n2": 0, "limit": 11}],
    budget=60,
    bounds="request bodies of 1..3 http.request messages with arbitrary (unbounded) chunk lengths against an arbitrary wsgi_max_body_size >= 0",
    encodes=["hypercorn/app_wrappers.py::WSGIWrapper.handle_http", "hypercorn/app_wrappers.py::WSGIWrapper.__call__"],
    stubs=["app_wrappers.bytearray / BytesIO replaced by length-only fakes", "sync_spawn runs the function inline and records that it was used"],
)
def wsgi_body_limit(k: int, n0: int, n1: int, n2: int, limit: int) -> bool:
    """
    pre: DOM(wsgi_body_limit, k=k, n0=n0, n1=n1, n2=n2, limit=limit)
    post: _
    """
    enter()
    k = conc(k, 1, 3)
    lens = [n0, n1, n2][:k]
    haw.bytearray = LenBuf  # type: ignore
    haw.BytesIO = _FakeBytesIO  # type: ignore
    try:
        calls = []

        def wsgi_app(environ, start_response):
            calls.append(environ["wsgi.input"].n)
            start_response("200 OK", [])
            return [b"ok"]

        w = WSGIWrapper(wsgi_app, limit)

        def fake_run_app(environ, send_):
            # run_app itself is decided by wsgi_app_shapes; here only handle_http is the subject
            calls.append(environ["wsgi.input"].n)
            send_({"type": "http.response.start", "status": 200, "headers": []})

        w.run_app = fake_run_app  # type: ignore
        msgs = [{"type": "http.request", "body": LenBuf(n), "more_body": i < k - 1} for i, n in enumerate(lens)]
        sent = []
        spawned = []

        async def receive():
            return msgs.pop(0)

        async def send(m):
            sent.append(m)

        async def sync_spawn(fn, *a):
            spawned.append(fn)
            return fn(*a)

        def call_soon(fn, *a):
            s2 = Sched()
            s2.spawn(fn(*a))
            s2.run()

        scope = {"type": "http", "method": "POST", "path": "/", "root_path": "", "query_string": b"", "http_version": "1.1", "headers": [], "server": None}
        s = Sched()
        t = s.spawn(w(scope, receive, send, sync_spawn, call_soon), "wsgi")
        s.run()
        total = 0
        over = False
        for n in lens:
            total = total + n
            if total > limit:
                over = True
                break
        ok = t.done and t.exc is None
        if over:
            ok = ok and not calls and not spawned and len(sent) == 2 and sent[0]["type"] == "http.response.start" and sent[0]["status"] == 400
        else:
            ok = ok and len(calls) == 1 and len(spawned) == 1 and calls[0] == total and sent[0]["status"] == 200
        return done(ok, lens=lens, limit=limit)
    finally:
        del haw.bytearray  # type: ignore
        from io import BytesIO

        haw.BytesIO = BytesIO  # type: ignore


# ------------------------------------------------------------------ application shapes


class _Iter:
    def __init__(self, chunks, log, fail_at=None) -> None:
        self.chunks = list(chunks)
        self.log = log
        self.fail_at = fail_at
        self.i = 0

    def __iter__(self):
        return self

    def __next__(self):
        if self.fail_at is not None and self.i == self.fail_at:
            raise ValueError("app failure while iterating")
        if self.i >= len(self.chunks):
            raise StopIteration
        self.i += 1
        return self.chunks[self.i - 1]

    def close(self) -> None:
        self.log.append("close")


class _Container:
    """A response object in the style of web frameworks: iterating it hands out a fresh iterator over its
    content, close() belongs to the container itself."""

    def __init__(self, chunks, log, fail_at=None, gen=False) -> None:
        self.chunks = list(chunks)
        self.log = log
        self.fail_at = fail_at
        self.gen = gen

    def __iter__(self):
        if self.gen:
            return self._gen()
        if self.fail_at is None:
            return iter(self.chunks)
        return _Iter(self.chunks, [], self.fail_at)

    def _gen(self):
        for i, c in enumerate(self.chunks):
            if self.fail_at is not None and i == self.fail_at:
                raise ValueError("app failure while iterating")
            yield c
        if self.fail_at is not None and self.fail_at >= len(self.chunks):
            raise ValueError("app failure while iterating")

    def close(self) -> None:
        self.log.append("close")


_SHAPES = ["list", "generator", "lazy generator", "iterator+close", "raise before start", "raise after start", "no start_response",
           "iterator fails mid-way", "lazy iterator+close", "empty list", "lazy, no chunks", "container+close", "container with a generator __iter__ + close",
           "container+close fails mid-way"]


def _make_app(shape: int, chunks, log):
    def app(environ, start_response):
        log.append("called")
        name = _SHAPES[shape]
        if name == "list":
            start_response("201 Created", [("X-A", "1")])
            return list(chunks)
        if name == "generator":
            start_response("201 Created", [("X-A", "1")])

            def gen():
                for c in chunks:
                    yield c

            return gen()
        if name == "lazy generator":
            def gen2():
                start_response("201 Created", [("X-A", "1")])
                for c in chunks:
                    yield c

            return gen2()
        if name == "iterator+close":
            start_response("201 Created", [("X-A", "1")])
            return _Iter(chunks, log)
        if name == "raise before start":
            raise ValueError("boom")
        if name == "raise after start":
            start_response("201 Created", [("X-A", "1")])
            raise ValueError("boom")
        if name == "no start_response":
            return _Iter(chunks, log)
        if name == "iterator fails mid-way":
            start_response("201 Created", [("X-A", "1")])
            return _Iter(chunks, log, fail_at=1 if len(chunks) > 1 else 0)
        if name == "lazy iterator+close":
            class Lazy(_Iter):
                def __next__(self2):
                    if self2.i == 0 and "started" not in log:
                        log.append("started")
                        start_response("201 Created", [("X-A", "1")])
                    return _Iter.__next__(self2)

            return Lazy(chunks, log)
        if name == "container+close":
            start_response("201 Created", [("X-A", "1")])
            return _Container(chunks, log)
        if name == "container with a generator __iter__ + close":
            start_response("201 Created", [("X-A", "1")])
            return _Container(chunks, log, gen=True)
        if name == "container+close fails mid-way":
            start_response("201 Created", [("X-A", "1")])
            return _Container(chunks, log, fail_at=1 if len(chunks) > 1 else 0, gen=True)
        if name == "empty list":
            start_response("204 No Content", [])
            return []
        # lazy, no chunks: start_response is called when iteration begins, nothing is yielded
        def gen3():
            start_response("201 Created", [("X-A", "1")])
            return
            yield b""  # pragma: no cover

        return gen3()

    return app


@harness(
    "C17",
    dom={"shape": (0, len(_SHAPES) - 1), "k": (0, 3), "e0": "bool", "e1": "bool", "e2": "bool"},
    split={"shape": "each"},
    witnesses=[{"shape": 0, "k": 2, "e0": False, "e1": True, "e2": False}, {"shape": 3, "k": 1, "e0": False, "e1": False, "e2": False}],
    budget=60,
    bounds="14 WSGI application shapes (lists, generators, self-iterating objects and containers whose __iter__ returns another object, with close(); failing before/after start_response and mid-iteration; lazy start_response) x 0..3 body chunks each empty or not",
    encodes=["hypercorn/app_wrappers.py::WSGIWrapper.run_app"],
    stubs=["`send` handed to run_app is a recorder (stands in for call_soon(send, ...) from the worker thread)"],
)
def wsgi_app_shapes(shape: int, k: int, e0: bool, e1: bool, e2: bool) -> bool:
    """
    pre: DOM(wsgi_app_shapes, shape=shape, k=k, e0=e0, e1=e1, e2=e2)
    post: _
    """
    enter()
    shape = conc(shape, 0, len(_SHAPES) - 1)
    k = conc(k, 0, 3)
    es = (e0, e1, e2)
    chunks = [(b"" if es[i] else b"c%d" % i) for i in range(k)]
    name = _SHAPES[shape]
    if name in ("empty list", "lazy, no chunks"):
        chunks = []
    log = []
    sent = []
    w = WSGIWrapper(_make_app(shape, chunks, log), 1000)
    err = None
    # CrossHair's tracer loses `nonlocal` assignments made by start_response inside run_app
    # ("Cell is empty", a frame-locals write-back artefact); all inputs are concrete here,
    # so run_app executes un-traced for each solver-chosen (shape, chunking).
    with NoTracing():
        try:
            w.run_app({"REQUEST_METHOD": "GET"}, sent.append)
        except Exception as e:  # noqa: BLE001
            err = e
    ok = log.count("called") == 1
    closes = log.count("close")
    has_close = name in ("iterator+close", "no start_response", "iterator fails mid-way", "lazy iterator+close", "container+close", "container with a generator __iter__ + close",
                         "container+close fails mid-way")
    if has_close:
        ok = ok and closes == 1
    status = 204 if name == "empty list" else 201
    hdrs = [] if name == "empty list" else [(b"x-a", b"1")]
    start = {"type": "http.response.start", "status": status, "headers": hdrs}
    bodies = [{"type": "http.response.body", "body": c, "more_body": True} for c in chunks]
    if name in ("raise before start", "raise after start"):
        ok = ok and isinstance(err, ValueError) and sent == []
    elif name == "no start_response":
        ok = ok and isinstance(err, RuntimeError) and sent == []
    elif name in ("iterator fails mid-way", "container+close fails mid-way"):
        n_ok = 1 if len(chunks) > 1 else 0
        ok = ok and isinstance(err, ValueError)
        if n_ok == 0:  # failed before the first chunk: nothing, or just the head, may have been sent
            ok = ok and sent in ([], [start])
        else:
            ok = ok and sent == [start] + bodies[:n_ok]
    else:
        ok = ok and err is None and sent == [start] + bodies
    return done(ok, shape=name, chunks=chunks, err=repr(err), sent=len(sent))


@harness(
    "C17",
    dom={"kind": (0, 2)},
    witnesses=[{"kind": 0}, {"kind": 1}],
    budget=20,
    bounds="non-HTTP scopes: websocket is refused with websocket.close, lifespan returns without calling the app, unknown scope types raise",
    encodes=["hypercorn/app_wrappers.py::WSGIWrapper.__call__"],
)
def wsgi_other_scopes(kind: int) -> bool:
    """
    pre: DOM(wsgi_other_scopes, kind=kind)
    post: _
    """
    enter()
    kind = conc(kind, 0, 2)
    calls = []
    w = WSGIWrapper(lambda e, s: calls.append(1), 10)
    sent = []

    async def send(m):
        sent.append(m)

    async def receive():
        raise RuntimeError("not expected")

    s = Sched()
    t = s.spawn(w({"type": ["websocket", "lifespan", "mystery"][kind]}, receive, send, None, None), "w")
    s.run()
    if kind == 0:
        ok = t.exc is None and sent == [{"type": "websocket.close"}] and not calls
    elif kind == 1:
        ok = t.exc is None and sent == [] and not calls
    else:
        ok = t.exc is not None and not calls
    return done(ok, kind=kind)
