"""Length-only stand-ins for bytearray/bytes (and BytesIO/StringIO), so that buffer *sizes*
can be symbolic ints of unbounded domain while content is abstracted away.

Injected as module globals of the module under test, e.g.
    hypercorn.protocol.h2.bytearray = LenBuf ; hypercorn.protocol.h2.bytes = LenBuf.freeze
Validated against the real types by vf.harness.c08.lenbuf_matches_bytearray.
"""
from __future__ import annotations


class LenBuf:
    def __init__(self, n=0) -> None:
        if isinstance(n, LenBuf):
            n = n.n
        elif isinstance(n, (bytes, bytearray)):
            n = len(n)
        self.n = n

    @staticmethod
    def freeze(x=b""):
        return x if isinstance(x, LenBuf) else LenBuf(len(x))

    def extend(self, other) -> None:
        self.n = self.n + len(other)

    def __len__(self):
        # CPython insists on a real int from __len__; callers in harnesses use .n
        return self.n

    def __bool__(self) -> bool:
        if self.n > 0:
            return True
        return False

    def __getitem__(self, s):
        assert isinstance(s, slice) and s.start is None and s.step is None
        k = s.stop
        if k < 0:
            k = 0
        return LenBuf(k if k < self.n else self.n)

    def __delitem__(self, s) -> None:
        assert isinstance(s, slice) and s.start is None and s.step is None
        k = s.stop
        if k < 0:
            k = 0
        self.n = self.n - (k if k < self.n else self.n)

    def __eq__(self, other):
        if isinstance(other, (bytes, bytearray)):
            return self.n == len(other)
        if isinstance(other, LenBuf):
            return self.n == other.n
        return NotImplemented

    def __ne__(self, other):
        r = self.__eq__(other)
        return r if r is NotImplemented else not r

    def __repr__(self) -> str:
        return f"LenBuf({self.n!r})"


def lb_len(x):
    """len() that keeps a symbolic length symbolic."""
    if isinstance(x, LenBuf):
        return x.n
    return len(x)


def lb_min(a, b):
    return a if a <= b else b
