"""Tier C, worker level, trio: the real hypercorn.trio.run.worker_serve (lifespan, trio.serve_listeners,
graceful shutdown) under trio.run() with a MockClock, an in-memory listener and in-memory streams.

trio cannot be stepped from outside the way the virtual asyncio loop can, and CrossHair's tracer is
process wide (sys.monitoring), so the run lives in a forked child process: the harness (same imperative
API as vf.stubs.wsess.WSession) sends one command at a time over a pipe and gets back a snapshot of
everything observable; between two commands every trio task is blocked, so the session is
deterministic.  The child is forked while tracing is off and never turns it on: the solver decides the
choice vector in the harness, the session itself runs natively."""
from __future__ import annotations

import os
import pickle
import struct
from typing import Any, Callable, Dict, List, Optional

from hypercorn.config import Config, Sockets

from vf.rt import NoTracing
from vf.stubs.b import NativeBuf, make_config
from vf.stubs.vloop import FakeSocket


class RemoteError(Exception):
    """Parent-side stand-in for the exception worker_serve ended with in the child."""

    def __init__(self, text: str, leaves: List[List[str]], is_group: bool) -> None:
        super().__init__(text)
        self.leaves = leaves  # per leaf exception: the names of the classes in its MRO
        self.is_group = is_group

    def all_leaves_are(self, cls) -> bool:
        return bool(self.leaves) and all(cls.__name__ in mro for mro in self.leaves)


def _describe(e: BaseException):
    leaves: List[List[str]] = []

    def walk(x):
        if isinstance(x, BaseExceptionGroup):
            for y in x.exceptions:
                walk(y)
        else:
            leaves.append([c.__name__ for c in type(x).__mro__])

    walk(e)
    return (repr(e), leaves, isinstance(e, BaseExceptionGroup))


def _send(fd: int, obj) -> None:
    data = pickle.dumps(obj)
    data = struct.pack("!I", len(data)) + data
    while data:
        n = os.write(fd, data)
        data = data[n:]


def _recv(fd: int):
    def read(n):
        buf = b""
        while len(buf) < n:
            chunk = os.read(fd, n - len(buf))
            if not chunk:
                raise EOFError("pipe closed")
            buf += chunk
        return buf

    (n,) = struct.unpack("!I", read(4))
    return pickle.loads(read(n))


class TConn:
    """What the harness holds for one client connection (same observations as FakeTransport)."""

    def __init__(self, session: "TWSession", cid: int) -> None:
        self._s = session
        self.cid = cid
        self.out = NativeBuf()
        self.closed_at: Optional[float] = None
        self.closed = False

    @property
    def lost(self) -> bool:
        return self.closed

    @property
    def closing(self) -> bool:
        return self.closed

    def peer_eof(self) -> None:
        self._s._call(("eof", self.cid))


class TWSession:
    flavour = "trio"

    def __init__(self, app_factory: Callable, config: Optional[Config] = None, jitter_result: Optional[int] = None, with_trigger: bool = True) -> None:
        self.with_trigger = with_trigger
        self.config = config or make_config()
        self.jitter_result = jitter_result
        self.app_factory = app_factory
        self.randint_calls: List[tuple] = []
        self.returned_at: Optional[float] = None
        self.error: Optional[BaseException] = None
        self.fired_at: Optional[float] = None
        self.log: List[tuple] = []
        self._now = 0.0
        self._listening = False
        self._conns: Dict[int, TConn] = {}
        self._closed = False
        with NoTracing():
            c2p_r, c2p_w = os.pipe()
            p2c_r, p2c_w = os.pipe()
            pid = os.fork()
            if pid == 0:
                # ---- child: never returns, never re-enables tracing
                code = 0
                try:
                    os.close(c2p_r)
                    os.close(p2c_w)
                    _Child(self, p2c_r, c2p_w).run()
                except BaseException:  # noqa: BLE001
                    code = 1
                os._exit(code)
            os.close(c2p_w)
            os.close(p2c_r)
            self._pid, self._rfd, self._wfd = pid, c2p_r, p2c_w
        self._wait()  # worker_serve started and settled

    # -- the harness side
    def _wait(self):
        with NoTracing():
            try:
                tag, val, snap = _recv(self._rfd)
            except EOFError:
                raise RuntimeError("trio worker session ended unexpectedly") from None
        if tag == "crash":
            raise RuntimeError("trio worker session crashed: %s" % (val,))
        self._apply(snap)
        return val

    def _apply(self, snap: dict) -> None:
        self._now = snap["now"]
        self.returned_at = snap["returned_at"]
        self.fired_at = snap["fired_at"] if snap["fired_at"] is not None else self.fired_at
        self.log = snap["log"]
        self.randint_calls = snap["randint_calls"]
        self._listening = snap["listening"]
        err = snap["error"]
        self.error = None if err is None else RemoteError(*err)
        for cid, (data, closed_at, closed) in snap["conns"].items():
            c = self._conns.get(cid)
            if c is None:
                c = self._conns[cid] = TConn(self, cid)
            if data:
                c.out.add(data)
            c.closed_at, c.closed = closed_at, closed

    def _call(self, cmd):
        if self._closed:
            raise RuntimeError("session closed")
        with NoTracing():
            _send(self._wfd, cmd)
        return self._wait()

    @property
    def now(self) -> float:
        return self._now

    def listening(self) -> bool:
        return self._listening

    def connect(self) -> Optional[TConn]:
        cid = self._call(("connect",))
        return None if cid is None else self._conns[cid]

    def feed(self, tr: TConn, data: bytes) -> None:
        self._call(("feed", tr.cid, bytes(data)))

    def fire(self) -> None:
        self._call(("fire",))

    def advance(self, dt: float) -> None:
        self._call(("advance", float(dt)))

    @property
    def returned(self) -> bool:
        return self.returned_at is not None

    def alive_tasks(self) -> List[str]:
        return self._call(("alive",))

    def close(self) -> None:
        if self._closed:
            return
        self._closed = True
        with NoTracing():
            try:
                _send(self._wfd, ("stop",))
            except OSError:
                pass
            for fd in (self._rfd, self._wfd):
                try:
                    os.close(fd)
                except OSError:
                    pass
            try:
                os.waitpid(self._pid, 0)
            except ChildProcessError:
                pass

    def __del__(self) -> None:
        try:
            self.close()
        except BaseException:  # noqa: BLE001
            pass


class _Child:
    """Runs in the forked process: the trio side of the session."""

    def __init__(self, session: TWSession, rfd: int, wfd: int) -> None:
        self.s = session
        self.rfd, self.wfd = rfd, wfd
        self.listeners: list = []
        self.streams: list = []
        self.returned_at: Optional[float] = None
        self.error: Optional[BaseException] = None
        self.fired_at: Optional[float] = None
        self.randint_calls: List[tuple] = []
        self.t0 = 0.0
        self.log: list = []

    # the application factory gets this object as `sess`
    @property
    def now(self) -> float:
        import trio

        return trio.current_time() - self.t0

    async def sleep(self, dt) -> None:
        import trio

        await trio.sleep(dt)

    def snapshot(self) -> dict:
        import trio

        conns = {}
        for i, st in enumerate(self.streams):
            data = st.out.take()
            conns[i] = (data, None if st.closed_at is None else st.closed_at - self.t0, st.closed)
        return {
            "now": trio.current_time() - self.t0,
            "returned_at": self.returned_at,
            "fired_at": self.fired_at,
            "log": list(self.log),
            "randint_calls": list(self.randint_calls),
            "listening": bool(self.listeners) and not self.listeners[0].closed,
            "error": None if self.error is None else _describe(self.error),
            "conns": conns,
        }

    def run(self) -> None:
        import trio
        import trio.testing

        import hypercorn.trio.run as trun
        from vf.stubs.tsess import MemStream, install_trio_determinism

        child = self

        class Listener(trio.abc.Listener):
            def __init__(self, sock) -> None:
                self.socket = sock
                self.closed = False
                self._send, self._recv = trio.open_memory_channel(1000)

            async def accept(self):
                if self.closed:
                    raise trio.ClosedResourceError("listener closed")
                try:
                    return await self._recv.receive()
                except (trio.EndOfChannel, trio.ClosedResourceError):
                    raise trio.ClosedResourceError("listener closed") from None

            async def aclose(self) -> None:
                self.closed = True
                self._send.close()
                self._recv.close()
                await trio.lowlevel.checkpoint()

        class TrioProxy:
            """`trio` as seen by hypercorn.trio.run: everything real except the socket listener."""

            class socket:  # noqa: N801
                @staticmethod
                def from_stdlib_socket(sock):
                    return sock

            @staticmethod
            def SocketListener(sock):  # noqa: N802
                lst = Listener(sock)
                child.listeners.append(lst)
                return lst

            def __getattr__(self, name):
                return getattr(trio, name)

        def fake_randint(a, b):
            child.randint_calls.append((a, b))
            return a if child.s.jitter_result is None else child.s.jitter_result

        install_trio_determinism(None)
        trun.randint = fake_randint  # type: ignore
        trun.trio = TrioProxy()  # type: ignore
        clock = trio.testing.MockClock()
        sock = FakeSocket(local=("198.51.100.1", 8080))
        app = self.s.app_factory(self)

        async def settle() -> None:
            await trio.testing.wait_all_tasks_blocked()

        async def main() -> None:
            self.t0 = trio.current_time()
            trigger = trio.Event()

            async def serve() -> None:
                try:
                    await trun.worker_serve(app, self.s.config, sockets=Sockets([], [sock], []), shutdown_trigger=trigger.wait if self.s.with_trigger else None)
                except BaseException as e:  # noqa: BLE001
                    if isinstance(e, trio.Cancelled):
                        raise
                    self.error = e
                self.returned_at = trio.current_time() - self.t0

            async with trio.open_nursery() as nursery:
                nursery.start_soon(serve)
                await settle()
                _send(self.wfd, ("ok", None, self.snapshot()))
                while True:
                    try:
                        cmd = await trio.to_thread.run_sync(_recv, self.rfd)
                    except EOFError:
                        cmd = ("stop",)
                    kind = cmd[0]
                    res: Any = None
                    if kind == "stop":
                        for st in self.streams:
                            st.paused = False
                            st.peer_reset()
                        nursery.cancel_scope.cancel()
                        break
                    if kind == "connect":
                        lst = self.listeners[0] if self.listeners else None
                        if lst is not None and not lst.closed:
                            st = MemStream()
                            try:
                                lst._send.send_nowait(st)
                                self.streams.append(st)
                                res = len(self.streams) - 1
                            except (trio.ClosedResourceError, trio.BrokenResourceError, trio.WouldBlock):
                                res = None
                    elif kind == "feed":
                        if cmd[2]:  # nothing arrived; the end of the client's stream is "eof"
                            self.streams[cmd[1]].peer_send(cmd[2])
                    elif kind == "eof":
                        self.streams[cmd[1]].peer_close()
                    elif kind == "fire":
                        self.fired_at = trio.current_time() - self.t0
                        trigger.set()
                    elif kind == "advance":
                        remaining = cmd[1]
                        while remaining > 1e-12:
                            await settle()
                            nd = trio.lowlevel.current_statistics().seconds_to_next_deadline
                            step = remaining if nd > remaining else max(nd, 0.0)
                            clock.jump(step)
                            remaining -= step
                            await settle()
                            if step == 0 and nd <= 0:
                                await trio.sleep(0)
                    elif kind == "alive":
                        res = sorted(t.name for t in nursery.child_tasks)
                    await settle()
                    _send(self.wfd, ("ok", res, self.snapshot()))

        try:
            trio.run(main, clock=clock)
        except BaseException as e:  # noqa: BLE001
            import traceback

            try:
                _send(self.wfd, ("crash", "%r\n%s" % (e, "".join(traceback.format_exception(e))[-3000:]), None))
            except BaseException:  # noqa: BLE001
                pass
