"""C10 WebSocket message fidelity and message-size limit."""
from __future__ import annotations

from wsproto.events import BytesMessage, CloseConnection, Ping, TextMessage

import hypercorn.protocol.ws_stream as hws
from hypercorn.protocol.events import Data, StreamClosed
from hypercorn.protocol.ws_stream import FrameTooLargeError, WebsocketBuffer

from vf.rt import DOM, MODE, conc, done, enter, harness
from vf.stubs.b import Conn, GatedApp, Rig, make_config, recording_app
from vf.stubs.clients import H2Client, WSClient, split_h1_head, ws_h1_handshake

QUICK = MODE["tier"] != "thorough"


class _Payload:
    """Payload of symbolic length (content abstracted)."""

    def __init__(self, n) -> None:
        self.n = n


class _FakeIO:
    def __init__(self) -> None:
        self.total = 0

    def write(self, data) -> int:
        self.total = self.total + data.n
        return data.n

    def getvalue(self):
        return self.total


class _FakeBytesIO(_FakeIO):
    pass


class _FakeStringIO(_FakeIO):
    pass


@harness(
    "C10",
    dom={"k": (1, 4), "text": "bool", "n0": (0, None), "n1": (0, None), "n2": (0, None), "n3": (0, None), "limit": (0, None)},
    witnesses=[{"k": 3, "text": True, "n0": 3, "n1": 4, "n2": 3, "n3": 0, "limit": 10}, {"k": 2, "text": False, "n0": 6, "n1": 5, "n2": 0, "n3": 0, "limit": 10}],
    budget=60,
    bounds="WebsocketBuffer: 1..4 fragments of arbitrary (unbounded) sizes, text or binary, any limit >= 0",
    encodes=["hypercorn/protocol/ws_stream.py::WebsocketBuffer.extend", "hypercorn/protocol/ws_stream.py::WebsocketBuffer.clear", "hypercorn/protocol/ws_stream.py::WebsocketBuffer.to_message"],
    stubs=["BytesIO/StringIO replaced by length-recording fakes; payloads carry only a symbolic length"],
)
def ws_buffer_limit(k: int, text: bool, n0: int, n1: int, n2: int, n3: int, limit: int) -> bool:
    """
    pre: DOM(ws_buffer_limit, k=k, text=text, n0=n0, n1=n1, n2=n2, n3=n3, limit=limit)
    post: _
    """
    enter()
    k = conc(k, 1, 4)
    text = True if text else False
    sizes = [n0, n1, n2, n3][:k]
    hws.BytesIO = _FakeBytesIO  # type: ignore
    hws.StringIO = _FakeStringIO  # type: ignore
    try:
        buf = WebsocketBuffer(limit)
        total = 0
        ok = True
        for n in sizes:
            ev = TextMessage(data=_Payload(n)) if text else BytesMessage(data=_Payload(n))
            total = total + n
            try:
                buf.extend(ev)
                raised = False
            except FrameTooLargeError:
                raised = True
            if raised != (total > limit):
                ok = False
                break
            if raised:
                break
        if ok and not raised:
            msg = buf.to_message()
            ok = msg["type"] == "websocket.receive" and (msg["text"] if text else msg["bytes"]) == total and (msg["bytes"] if text else msg["text"]) is None
            buf.clear()
            ok = ok and buf.length == 0 and buf.value is None
        return done(ok, sizes=sizes, text=text, limit=limit)
    finally:
        from io import BytesIO, StringIO

        hws.BytesIO = BytesIO  # type: ignore
        hws.StringIO = StringIO  # type: ignore


# ------------------------------------------------------------------ _handle_events with scripted wsproto events

EV = ["text fragment (more)", "text fragment (final)", "bytes fragment (more)", "bytes fragment (final)", "ping", "close"]


class _ScriptedWS:
    """Stands in for wsproto.Connection inside WSStream: yields scripted events, records sends."""

    def __init__(self, events) -> None:
        self._events = events
        self.sent = []
        from wsproto.connection import ConnectionState

        self.state = ConnectionState.OPEN

    def receive_data(self, data) -> None:
        pass

    def events(self):
        for e in self._events:
            if isinstance(e, CloseConnection):
                from wsproto.connection import ConnectionState

                self.state = ConnectionState.REMOTE_CLOSING
            yield e

    def send(self, event) -> bytes:
        self.sent.append(event)
        return b"<frame %d>" % len(self.sent)


@harness(
    "C10",
    dom={"k": (1, 3), "e0": (0, 5), "e1": (0, 5), "e2": (0, 5), "e3": (0, 5), "z0": (0, 2), "z1": (0, 2), "z2": (0, 2), "z3": (0, 2)},
    thorough_dom={"k": (1, 4)},
    split={"e0": "each"},
    thorough_split={"e0": "each", "e1": "each"},
    witnesses=[{"k": 3, "e0": 0, "e1": 4, "e2": 1, "e3": 5, "z0": 1, "z1": 1, "z2": 1, "z3": 0}, {"k": 2, "e0": 2, "e1": 3, "e2": 0, "e3": 0, "z0": 2, "z1": 2, "z2": 0, "z3": 0}],
    budget={"quick": 100, "thorough": 400},
    bounds="WSStream._handle_events over every sequence of 1..3 (thorough 4) wsproto events from {text/bytes fragment (more|final), ping, close} with payload sizes {0, 4, 7} against websocket_max_message_size = 10 (well-formed: a message keeps its type until finished)",
    encodes=["hypercorn/protocol/ws_stream.py::WSStream._handle_events", "hypercorn/protocol/ws_stream.py::WebsocketBuffer.extend", "hypercorn/protocol/ws_stream.py::WSStream._send_wsproto_event"],
    stubs=["wsproto connection replaced by a scripted event source / send recorder"],
)
def ws_handle_events_ref(k: int, e0: int, e1: int, e2: int, e3: int, z0: int, z1: int, z2: int, z3: int) -> bool:
    """
    pre: DOM(ws_handle_events_ref, k=k, e0=e0, e1=e1, e2=e2, e3=e3, z0=z0, z1=z1, z2=z2, z3=z3)
    post: _
    """
    enter()
    k = conc(k, 1, 4)
    es = (e0, e1, e2, e3)
    zs = (z0, z1, z2, z3)
    kinds = [conc(es[i], 0, 5) for i in range(k)]
    # well-formedness of what wsproto can emit: a fragmented message keeps its type until finished
    open_type = None
    for pos, kd in enumerate(kinds):
        if kd == 5 and pos != len(kinds) - 1:
            return done(True, skipped="wsproto emits nothing after a close")
        if kd in (0, 1):
            if open_type == "bytes":
                return done(True, skipped="wsproto never interleaves types inside one message")
            open_type = None if kd == 1 else "text"
        elif kd in (2, 3):
            if open_type == "text":
                return done(True, skipped="wsproto never interleaves types inside one message")
            open_type = None if kd == 3 else "bytes"
    sizes = [([0, 4, 7][conc(zs[i], 0, 2)] if kinds[i] < 4 else 0) for i in range(k)]
    events = []
    for i, (kd, z) in enumerate(zip(kinds, sizes)):
        if kd in (0, 1):
            events.append(TextMessage(data="t%d" % i + "x" * (z - 2) if z else "", message_finished=kd == 1, frame_finished=True))
        elif kd in (2, 3):
            events.append(BytesMessage(data=(b"b%d" % i + b"y" * (z - 2)) if z else b"", message_finished=kd == 3, frame_finished=True))
        elif kd == 4:
            events.append(Ping(payload=b"p%d" % i))
        else:
            events.append(CloseConnection(code=1000, reason=None))
    from vf.harness.c12 import _WS_HEADERS

    rig = Rig("ws", config=make_config(websocket_max_message_size=10))
    rig.set_app(recording_app(rig))
    rig.request("GET", b"/ws", "1.1", list(_WS_HEADERS))
    rig.app_send({"type": "websocket.accept"})
    fake = _ScriptedWS(events)
    rig.stream.connection = fake
    before = len(rig.events)
    rig.handle(Data(stream_id=1, data=b"x"))
    # ---- reference assembler
    want_msgs = []
    want_sent = []
    cur = None
    total = 0
    closed = False
    for e in events:
        if isinstance(e, (TextMessage, BytesMessage)):
            total += len(e.data)
            if total > 10:
                want_sent.append(("close", 1009))
                break
            cur = e.data if cur is None else cur + e.data
            if e.message_finished:
                want_msgs.append({"type": "websocket.receive", "bytes": cur if isinstance(cur, bytes) else None, "text": cur if isinstance(cur, str) else None})
                cur = None
                total = 0
        elif isinstance(e, Ping):
            want_sent.append(("pong", e.payload))
        else:
            want_sent.append(("close", 1000))
            closed = True
    got_msgs = [m for m in rig.app_msgs if m["type"] == "websocket.receive"]
    got_sent = []
    for e in fake.sent:
        if isinstance(e, CloseConnection):
            got_sent.append(("close", int(e.code)))
        else:
            got_sent.append(("pong", bytes(e.payload)))
    ok = got_msgs == want_msgs and got_sent == want_sent and not rig.sched.errors
    closes = sum(1 for e in rig.events[before:] if isinstance(e, StreamClosed))
    if closed:
        ok = ok and closes == 1
    return done(ok, events=[EV[kd] for kd in kinds], sizes=sizes)


# ------------------------------------------------------------------ sessions with a real wsproto client

MESSAGES = [
    [("text", "hello")],
    [("bytes", b"\x00\x01\xfe")],
    [("text", ""), ("bytes", b""), ("text", "x")],
    [("text", "héllo €!"), ("bytes", b"bin")],
    [("text", "0123456789")],       # exactly at the limit of 10 characters
    [("text", "0123456789A"), ("text", "never")],  # over the limit
    [("bytes", b"0123456789AB"), ("text", "never")],
    [("text", "€€€€")],  # 4 characters, 12 bytes: under the character limit
]
FRAG = ["whole", "two fragments", "byte-wise fragments", "fragment inside a code point"]


def _client_frames(ws: WSClient, msgs, frag: int, ping: bool):
    """List of byte strings (one per frame) for the messages under a fragmentation scheme."""
    out = []
    for kind, payload in msgs:
        if frag == 0 or len(payload) <= 1:
            out.append(ws.send_text(payload) if kind == "text" else ws.send_bytes(payload))
            continue
        if frag == 1:
            cuts = [len(payload) // 2]
        elif frag == 2:
            cuts = list(range(1, len(payload)))
        else:
            cuts = [1]
        parts = []
        pos = 0
        for c in cuts + [len(payload)]:
            parts.append(payload[pos:c])
            pos = c
        for i, part in enumerate(parts):
            fin = i == len(parts) - 1
            out.append(ws.send_text(part, fin) if kind == "text" else ws.send_bytes(part, fin))
            if ping and i == 0:
                out.append(ws.send_ping(b"mid"))
    return out


def _echo_steps(n_expected: int):
    return ["recv", ("send", {"type": "websocket.accept"}), ("send", {"type": "websocket.send", "text": "sérver"}),
            ("send", {"type": "websocket.send", "bytes": b"\x00srv"}), "recv_until_disconnect"]


@harness(
    "C10",
    dom={"mi": (0, len(MESSAGES) - 1), "frag": (0, 3), "ping": "bool", "deflate": "bool", "seg": (0, 2), "carrier": (0, 1), "prior": (0, 1)},
    split={"mi": "each", "carrier": "each"},
    witnesses=[{"mi": 3, "frag": 2, "ping": True, "deflate": False, "seg": 1, "carrier": 0, "prior": 0}, {"mi": 5, "frag": 1, "ping": False, "deflate": True, "seg": 0, "carrier": 0, "prior": 0},
               {"mi": 0, "frag": 0, "ping": False, "deflate": False, "seg": 0, "carrier": 1, "prior": 0}, {"mi": 3, "frag": 1, "ping": False, "deflate": True, "seg": 0, "carrier": 0, "prior": 1}],
    budget=120,
    per_path=60,
    bounds="8 message lists (empty, multi-byte UTF-8, at/over the 10-character limit, 12-byte/4-character text) x 4 fragmentations (incl. byte-wise and inside a code point) x ping between fragments x permessage-deflate on/off x read segmentation {one read, frame per read, byte per read} x carrier {HTTP/1.1 upgrade, HTTP/2 extended CONNECT} x {first connection of the process, after an earlier compressed connection that exchanged messages}",
    encodes=["hypercorn/protocol/ws_stream.py::WSStream._handle_events", "hypercorn/protocol/ws_stream.py::WSStream.app_send", "hypercorn/protocol/ws_stream.py::Handshake.accept",
             "hypercorn/protocol/h11.py::H11WSConnection.next_event", "hypercorn/protocol/h2.py::H2Protocol._handle_events"],
    stubs=["tier B runtime", "independent wsproto client (framing, permessage-deflate) and h2 client"],
)
def ws_message_session(mi: int, frag: int, ping: bool, deflate: bool, seg: int, carrier: int, prior: int) -> bool:
    """
    pre: DOM(ws_message_session, mi=mi, frag=frag, ping=ping, deflate=deflate, seg=seg, carrier=carrier, prior=prior)
    post: _
    """
    enter()
    mi = conc(mi, 0, len(MESSAGES) - 1)
    frag = conc(frag, 0, 3)
    seg = conc(seg, 0, 2)
    carrier = conc(carrier, 0, 1)
    prior = conc(prior, 0, 1)
    ping = True if ping else False
    deflate = True if deflate else False
    if ping and deflate and frag != 0:
        # wsproto 1.3.2 itself corrupts a compressed fragmented message when a ping is interleaved
        # (reproduced client<->server without hypercorn): a defect shared by both sides of the oracle
        return done(True, skipped="permessage-deflate + ping between fragments: wsproto library defect")
    if prior:
        if QUICK and (seg != 0 or ping or frag > 1):
            return done(True, skipped="quick tier: sessions after an earlier connection arrive in one read, whole or in two fragments, without pings")
        w0, _ = _session(3, 0, False, True, 0, 0)
        if w0:
            return done(False, why="earlier connection: " + w0)
    why, vec = _session(mi, frag, ping, deflate, seg, carrier)
    return done(why == "", prior=prior, **vec)


def _session(mi: int, frag: int, ping: bool, deflate: bool, seg: int, carrier: int):
    """One WebSocket connection from handshake to the last message; returns (why, vector)."""
    msgs = MESSAGES[mi]
    conn = Conn(None, make_config(websocket_max_message_size=10), alpn="h2" if carrier == 1 else "http/1.1")
    app = GatedApp(conn.ctx, lambda scope, idx: _echo_steps(len(msgs)), gated=False)
    conn.proto.app = app
    conn.proto.protocol.app = app
    ws = WSClient(deflate=deflate)
    h2c = None
    why = ""
    if carrier == 0:
        conn.feed(ws_h1_handshake(extensions=b"permessage-deflate" if deflate else None))
        head = split_h1_head(conn.take())
        if head is None or head[0] != 101:
            return f"handshake failed: {head!r}", {}
        status, headers, rest = head
        acc = [v for n, v in headers if n == b"sec-websocket-extensions"]
        ws.finalize(acc[0] if acc else None)
        if deflate and not acc:
            why = "permessage-deflate offered but not accepted"
        ws.feed(rest)
    else:
        h2c = H2Client()
        hs = [(b"sec-websocket-version", b"13")] + ([(b"sec-websocket-extensions", b"permessage-deflate")] if deflate else [])
        h2c.request(1, b"CONNECT", b"/ws", hs, end_stream=False, extra_pseudo=[(b":protocol", b"websocket"), (b":scheme", b"http"), (b":authority", b"example.com"), (b":path", b"/ws")])
        conn.feed(h2c.take())
        h2c.feed(conn.take())
        conn.feed(h2c.take())
        h2c.feed(conn.take())
        st = h2c.streams[1]
        if st.status != 200:
            return f"extended CONNECT refused: {st!r} {h2c.errors}", {}
        acc = [v for n, v in st.headers if n == b"sec-websocket-extensions"]
        ws.finalize(acc[0] if acc else None)
        ws.feed(st.data)
        st.data = b""
    frames = _client_frames(ws, msgs, frag, ping)

    def deliver(data: bytes) -> None:
        if carrier == 0:
            conn.feed(data)
            ws.feed(conn.take())
        else:
            h2c.data(1, data)
            conn.feed(h2c.take())
            h2c.feed(conn.take())
            conn.feed(h2c.take())
            ws.feed(h2c.streams[1].data)
            h2c.streams[1].data = b""

    if seg == 0:
        deliver(b"".join(frames))
    elif seg == 1:
        for f in frames:
            deliver(f)
    else:
        blob = b"".join(frames)
        if QUICK and len(blob) > 40:
            deliver(blob[:1])
            deliver(blob[1:2])
            deliver(blob[2:])
        else:
            for i in range(len(blob)):
                deliver(blob[i:i + 1])
    # ---- reference
    want = []
    too_big = False
    for kind, payload in msgs:
        if len(payload) > 10:
            too_big = True
            break
        want.append({"type": "websocket.receive", "bytes": payload if kind == "bytes" else None, "text": payload if kind == "text" else None})
    inst = app.instances[0] if app.instances else None
    if not why:
        if inst is None:
            why = "no application instance"
        else:
            got = [m for m in inst.received if m["type"] == "websocket.receive"]
            if got != want:
                why = f"application received {got!r}, expected {want!r}"
    if not why and ws.messages != [("text", "sérver"), ("bytes", b"\x00srv")]:
        why = f"client received {ws.messages!r}"
    if not why and ping and frag != 0 and any(len(p) > 1 for _, p in msgs) and not too_big:
        n_pings = sum(1 for _, p in msgs if len(p) > 1)
        if ws.pongs != [b"mid"] * n_pings:
            why = f"pongs {ws.pongs!r}, expected {n_pings} x b'mid'"
    if not why and too_big and (ws.close is None or ws.close[0] != 1009):
        why = f"oversize message: client saw close {ws.close!r}, expected 1009"
    if not why and not too_big and ws.close is not None:
        why = f"unexpected close {ws.close!r}"
    if not why and ws.errors:
        why = f"client framing errors {ws.errors!r}"
    if not why and conn.sched.errors:
        why = "exception escaped a task: %r" % (conn.sched.errors[0],)
    return why, dict(msgs=repr(msgs), frag=FRAG[frag], ping=ping, deflate=deflate, seg=seg, carrier=["h1", "h2"][carrier], why=why)
