"""One session description, two executors: the same list of client actions is run against the
real asyncio TCPServer (virtual loop) or the real trio TCPServer (MockClock); both return an
observation of the same shape.

actions: ("feed", bytes) | ("sleep", seconds) | ("eof",) | ("reset",) | ("write_fail_at", n)
         | ("pause",) | ("resume",) | ("pause_at_write", n) | ("terminate",) | ("call", fn(env))
"""
from __future__ import annotations

import asyncio
from typing import Any, Callable, Dict, List, Optional

from hypercorn.config import Config

from vf.stubs.asess import ASession
from vf.stubs.b import make_config


class AEnv:
    flavour = "asyncio"

    def __init__(self, loop) -> None:
        self.loop = loop

    def now(self) -> float:
        return self.loop.time()

    async def sleep(self, dt) -> None:
        await asyncio.sleep(dt)

    def event(self):
        return asyncio.Event()


def run_asyncio_session(app_factory: Callable, config: Optional[Config], actions: List[tuple], alpn: Optional[str] = None,
                        max_requests: Optional[int] = None, state: Optional[dict] = None) -> Dict[str, Any]:
    from vf.stubs.vloop import VLoop

    loop = VLoop()
    env = AEnv(loop)
    app = app_factory(env)
    s = ASession(app, config or make_config(), alpn=alpn, tls=alpn is not None, max_requests=max_requests, state=state, loop=loop)
    obs: Dict[str, Any] = {"snaps": [], "flavour": "asyncio", "ctx": s.ctx}

    def snap(label) -> None:
        obs["snaps"].append({"label": label, "t": s.now, "out": s.take(), "closed_at": s.closed_at, "handler_done": s.handler_done})

    for act in actions:
        kind = act[0]
        if kind == "feed":
            s.feed(act[1])
        elif kind == "eof":
            s.eof()
        elif kind == "reset":
            s.reset()
        elif kind == "write_fail_at":
            s.tr.write_fail_at = act[1]
        elif kind == "pause_at_write":
            s.tr.pause_at = act[1]
        elif kind == "pause":
            s.tr.peer_stops_reading()
            s.loop.settle()
        elif kind == "resume":
            s.tr.peer_resumes_reading()
            s.loop.settle()
        elif kind == "terminate":
            s.terminate()
        elif kind == "call":
            r = act[1](env)
            if hasattr(r, "__await__"):
                loop.create_task(r)
            loop.settle()
        elif kind == "sleep":
            s.sleep(act[1])
        snap(act if kind != "feed" else ("feed", len(act[1])))
    obs["closed_at"] = s.closed_at
    obs["eof_sent"] = s.tr.eof_written
    obs["handler_done"] = s.handler_done
    obs["handler_done_at"] = s.done_at
    obs["handler_error"] = s.handler_error()
    obs["alive"] = s.alive_tasks()
    obs["loop_exceptions"] = [str(c.get("message")) + ":" + repr(c.get("exception")) for c in loop.exceptions]
    obs["alive_before_cancel"] = not s.handler_done
    loop.shutdown()
    return obs


def run_session(flavour: str, app_factory: Callable, config: Optional[Config], actions: List[tuple], **kw) -> Dict[str, Any]:
    if flavour == "asyncio":
        kw.pop("sched_choices", None)
        return run_asyncio_session(app_factory, config, actions, **kw)
    from vf.stubs.tsess import run_trio_session

    return run_trio_session(app_factory, config, actions, **kw)


def all_out(obs) -> bytes:
    return b"".join(s["out"] for s in obs["snaps"])
