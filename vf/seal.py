"""Un-traced boundary around the third-party sans-IO libraries.

CrossHair replaces bytearray()/bytes/str operations by symbolic models while tracing; h11's
ReceiveBuffer (and friends) break under that.  h11, h2, hpack, hyperframe, priority and
wsproto are therefore *sealed*: every function, method and property of those packages runs
inside NoTracing() with its arguments realised leaf-wise.  They are environment with
concrete semantics; everything under /repo/src/hypercorn stays traced.
"""
from __future__ import annotations

import functools
import inspect
import sys
import types

from vf.rt import NoTracing, is_tracing

try:
    from crosshair.core import realize
except Exception:  # pragma: no cover
    def realize(x):
        return x

PACKAGES = ("h11", "h2", "hpack", "hyperframe", "priority", "wsproto")
_SEALED = False
_WRAPPED: dict = {}


def _conc(x, depth=0):
    """Realise symbolic leaves; rebuild containers only when something changed."""
    if depth > 6:
        return x
    t = type(x)
    if t in (int, bool, str, bytes, float, type(None), bytearray):
        return x
    if hasattr(t, "__ch_realize__"):
        return realize(x)
    if t in (list, tuple):
        new = [_conc(i, depth + 1) for i in x]
        if any(a is not b for a, b in zip(new, x)):
            return t(new)
        return x
    if t is dict:
        new = {_conc(k, depth + 1): _conc(v, depth + 1) for k, v in x.items()}
        if any(a is not b for a, b in zip(new.values(), x.values())) or any(a is not b for a, b in zip(new.keys(), x.keys())):
            return new
        return x
    # symbolic containers (ShellMutableSequence etc.)
    mod = getattr(t, "__module__", "")
    if mod.startswith("crosshair"):
        try:
            return realize(x)
        except Exception:
            return x
    return x


def _native(fn):
    if fn in _WRAPPED:
        return _WRAPPED[fn]
    if getattr(fn, "__vf_sealed__", False):
        return fn
    isgen = inspect.isgeneratorfunction(fn)

    @functools.wraps(fn)
    def w(*a, **kw):
        if not is_tracing():
            return fn(*a, **kw)
        with NoTracing():
            a2 = tuple(_conc(x) for x in a)
            kw2 = {k: _conc(v) for k, v in kw.items()}
            if isgen:
                return iter(list(fn(*a2, **kw2)))
            return fn(*a2, **kw2)

    w.__vf_sealed__ = True
    try:
        _WRAPPED[fn] = w
    except TypeError:
        pass
    return w


def _seal_class(cls) -> None:
    for name, attr in list(vars(cls).items()):
        try:
            if isinstance(attr, types.FunctionType):
                setattr(cls, name, _native(attr))
            elif isinstance(attr, staticmethod):
                setattr(cls, name, staticmethod(_native(attr.__func__)))
            elif isinstance(attr, classmethod):
                setattr(cls, name, classmethod(_native(attr.__func__)))
            elif isinstance(attr, property):
                setattr(
                    cls,
                    name,
                    property(
                        _native(attr.fget) if attr.fget else None,
                        _native(attr.fset) if attr.fset else None,
                        _native(attr.fdel) if attr.fdel else None,
                        attr.__doc__,
                    ),
                )
        except (AttributeError, TypeError):
            pass


def seal() -> None:
    """Idempotent.  Import the packages first, then wrap."""
    global _SEALED
    if _SEALED:
        return
    _SEALED = True
    import h11  # noqa
    import h2.connection  # noqa
    import h2.config  # noqa
    import h2.events  # noqa
    import h2.exceptions  # noqa
    import h2.settings  # noqa
    import hpack  # noqa
    import hyperframe.frame  # noqa
    import priority  # noqa
    import wsproto  # noqa
    import wsproto.connection  # noqa
    import wsproto.events  # noqa
    import wsproto.extensions  # noqa
    import wsproto.frame_protocol  # noqa
    import wsproto.handshake  # noqa
    import wsproto.utilities  # noqa

    mods = [m for n, m in list(sys.modules.items()) if m is not None and n.split(".")[0] in PACKAGES]
    seen = set()
    replaced = {}
    for m in mods:
        for name, attr in list(vars(m).items()):
            if isinstance(attr, type) and getattr(attr, "__module__", "").split(".")[0] in PACKAGES:
                if attr not in seen and not issubclass(attr, BaseException):
                    seen.add(attr)
                    _seal_class(attr)
            elif isinstance(attr, types.FunctionType) and (attr.__module__ or "").split(".")[0] in PACKAGES:
                w = _native(attr)
                replaced[attr] = w
    # rebind module-level functions everywhere they were imported by name (incl. hypercorn)
    for n, m in list(sys.modules.items()):
        if m is None:
            continue
        top = n.split(".")[0]
        if top not in PACKAGES and top != "hypercorn":
            continue
        for name, attr in list(vars(m).items()):
            if isinstance(attr, types.FunctionType) and attr in replaced:
                try:
                    setattr(m, name, replaced[attr])
                except Exception:
                    pass
