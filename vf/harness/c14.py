"""C14 lifespan ordering, failure handling, state isolation  /  C15 graceful shutdown (asyncio worker)."""
from __future__ import annotations

import asyncio

from hypercorn.utils import LifespanFailureError, LifespanTimeoutError

from vf.rt import DOM, MODE, conc, done, enter, harness
from vf.stubs.b import make_config
from vf.stubs.clients import H2Client, WSClient, h1_parse, h1_request, split_h1_head, ws_h1_handshake
from vf.stubs.wsess import WSession

QUICK = MODE["tier"] != "thorough"
HOSTH = (b"Host", b"example.com")

def _fin(sess, value):
    sess.close()
    return value


def _session_class(flavour: int):
    if flavour == 0:
        return WSession
    from vf.stubs.twsess import TWSession

    return TWSession


def _is(err, cls) -> bool:
    """err is a `cls`, or an exception group (trio nurseries wrap what they re-raise) all of whose leaves are."""
    if isinstance(err, cls):
        return True
    if hasattr(err, "all_leaves_are"):  # the trio session runs in a child process: vf.stubs.twsess.RemoteError
        return err.all_leaves_are(cls)
    if isinstance(err, BaseExceptionGroup):
        return len(err.exceptions) > 0 and all(_is(e, cls) for e in err.exceptions)
    return False


STARTUP = ["complete", "failed", "raises (no lifespan support)", "hangs", "returns without answering", "sends an unknown message", "complete after 2 s", "failed without the optional message", "returns at once without receiving anything (as the WSGI wrapper does)"]
SHUTDOWN = ["complete", "failed", "raises", "hangs", "returns without answering", "failed without the optional message", "application had returned right after startup.complete"]


def make_app(su: int, sd: int, work: dict):
    """ASGI app: lifespan script (su, sd) + HTTP handler whose duration depends on the path."""

    def factory(sess):
        log = []

        async def app(scope, receive, send, sync_spawn=None, call_soon=None):
            if scope["type"] == "lifespan":
                if su == 8:
                    return
                m = await receive()
                log.append((m["type"], sess.now))
                scope["state"]["from_lifespan"] = "shared"
                if su == 0:
                    await send({"type": "lifespan.startup.complete"})
                elif su == 1:
                    await send({"type": "lifespan.startup.failed", "message": "no database"})
                    return
                elif su == 2:
                    raise RuntimeError("lifespan is not supported")
                elif su == 3:
                    await sess.sleep(10000)
                elif su == 4:
                    return
                elif su == 5:
                    await send({"type": "lifespan.startup.bogus"})
                elif su == 7:
                    await send({"type": "lifespan.startup.failed"})
                    return
                else:
                    await sess.sleep(2)
                    await send({"type": "lifespan.startup.complete"})
                log.append(("startup done", sess.now))
                if sd == 6:
                    return
                m = await receive()
                log.append((m["type"], sess.now))
                if sd == 0:
                    await send({"type": "lifespan.shutdown.complete"})
                elif sd == 1:
                    await send({"type": "lifespan.shutdown.failed", "message": "boom"})
                elif sd == 2:
                    raise RuntimeError("shutdown broke")
                elif sd == 3:
                    await sess.sleep(10000)
                elif sd == 5:
                    await send({"type": "lifespan.shutdown.failed"})
                return
            if scope["type"] == "websocket":
                log.append(("ws", sess.now))
                await receive()
                await send({"type": "websocket.accept"})
                while True:
                    m = await receive()
                    if m["type"] == "websocket.disconnect":
                        log.append(("ws done", sess.now))
                        return
            log.append(("request", scope["raw_path"], dict(scope["state"]), sess.now))
            scope["state"]["touched_by"] = scope["raw_path"]
            while True:
                m = await receive()
                if m["type"] != "http.request" or not m.get("more_body"):
                    break
            d = work.get(scope["raw_path"], 0)
            if scope["raw_path"].startswith(b"/stream"):
                # the head and the first chunk go out at once, the rest after the work is done
                await send({"type": "http.response.start", "status": 200, "headers": [(b"content-length", b"2")]})
                await send({"type": "http.response.body", "body": b"o", "more_body": True})
                await sess.sleep(d)
                await send({"type": "http.response.body", "body": b"k", "more_body": False})
                log.append(("answered", scope["raw_path"], sess.now))
                return
            if d:
                await sess.sleep(d)
            await send({"type": "http.response.start", "status": 200, "headers": [(b"content-length", b"2")]})
            await send({"type": "http.response.body", "body": b"ok", "more_body": False})
            log.append(("answered", scope["raw_path"], sess.now))

        sess.log = log
        return app

    return factory


@harness(
    "C14",
    dom={"su": (0, 8), "sd": (0, 6), "early": "bool", "inflight": "bool", "flavour": (0, 1)},
    split={"su": "each", "flavour": "each"},
    witnesses=[{"su": 0, "sd": 0, "early": False, "inflight": True, "flavour": 0}, {"su": 1, "sd": 0, "early": True, "inflight": False, "flavour": 0}, {"su": 6, "sd": 3, "early": True, "inflight": False, "flavour": 0},
               {"su": 0, "sd": 0, "early": False, "inflight": True, "flavour": 1}, {"su": 3, "sd": 0, "early": True, "inflight": False, "flavour": 1}],
    budget=150,
    per_path=240,
    bounds="asyncio and trio worker_serve with 9 lifespan startup scripts x 7 shutdown scripts (incl. failed events without the optional message, an application that returns from the lifespan scope at once or right after startup) x a connection attempt before startup has finished or not x a request in flight at the trigger or not; startup_timeout=5, shutdown_timeout=4, graceful_timeout=3",
    encodes=["hypercorn/asyncio/run.py::worker_serve", "hypercorn/asyncio/lifespan.py::Lifespan.handle_lifespan", "hypercorn/asyncio/lifespan.py::Lifespan.wait_for_startup",
             "hypercorn/asyncio/lifespan.py::Lifespan.wait_for_shutdown", "hypercorn/asyncio/lifespan.py::Lifespan.asgi_send", "hypercorn/asyncio/tcp_server.py::TCPServer.run",
             "hypercorn/trio/run.py::worker_serve", "hypercorn/trio/lifespan.py::Lifespan.handle_lifespan", "hypercorn/trio/lifespan.py::Lifespan.wait_for_startup",
             "hypercorn/trio/lifespan.py::Lifespan.wait_for_shutdown", "hypercorn/trio/tcp_server.py::TCPServer.run"],
    stubs=["tier C, worker level: the real asyncio.start_server / base_events.Server on the virtual loop with a fake listening socket; randint stubbed",
           "trio: the real worker_serve / trio.serve_listeners under trio.run() with a MockClock in a thread of its own (un-traced: the solver decides the choice vector, the session runs natively), in-memory listener and streams"],
)
def lifespan_ordering(su: int, sd: int, early: bool, inflight: bool, flavour: int) -> bool:  # noqa: C901
    """
    pre: DOM(lifespan_ordering, su=su, sd=sd, early=early, inflight=inflight, flavour=flavour)
    post: _
    """
    enter()
    su = conc(su, 0, 8)
    sd = conc(sd, 0, 6)
    flavour = conc(flavour, 0, 1)
    early = True if early else False
    inflight = True if inflight else False
    cfg = make_config(startup_timeout=5, shutdown_timeout=4, graceful_timeout=3, keep_alive_timeout=50)
    s = _session_class(flavour)(make_app(su, sd, {b"/slow": 1.5}), cfg)
    why = ""
    # --- before startup has finished nobody listens
    if early and su in (3, 6) and (s.listening() or s.connect() is not None):
        why = "listening socket accepts connections before lifespan startup completed"
    s.advance(2.5)  # su == 6 completes at t=2
    serves = su in (0, 2, 4, 5, 6, 8)
    if not why and su in (1, 7):
        if not s.returned or not _is(s.error, LifespanFailureError):
            why = f"startup.failed did not abort the server: returned={s.returned} error={s.error!r}"
        elif s.listening() or any(e[0] == "request" for e in s.log):
            why = "something was served although startup failed"
        return _fin(s, done(why == "", startup=STARTUP[su], worker=["asyncio", "trio"][flavour], why=why))
    if not why and su == 3:
        s.advance(5)
        if not s.returned or not _is(s.error, LifespanTimeoutError):
            why = f"startup timeout did not abort the server: returned={s.returned} error={s.error!r}"
        elif s.listening():
            why = "listening although startup never completed"
        return _fin(s, done(why == "", startup=STARTUP[su], worker=["asyncio", "trio"][flavour], why=why))
    if not why and not s.listening():
        why = f"server is not listening after startup '{STARTUP[su]}' (error={s.error!r})"
    if not why:
        a = s.connect()
        s.feed(a, h1_request("GET", b"/a", [HOSTH]))
        b = s.connect()
        s.feed(b, h1_request("GET", b"/b", [HOSTH]))
        reqs = [e for e in s.log if e[0] == "request"]
        starts = [e for e in s.log if e[0] == "startup done"]
        if len(reqs) != 2:
            why = f"{len(reqs)} requests served"
        elif su in (0, 6) and (not starts or starts[0][-1] > reqs[0][-1]):
            why = "a request scope was created before lifespan startup completed"
        else:
            lifespan_ok = su in (0, 6)
            for e in reqs:
                st = e[2]
                if "touched_by" in st:
                    why = f"connection state leaked between connections: {st!r}"
                if lifespan_ok and st.get("from_lifespan") != "shared":
                    why = f"lifespan state not visible in the request scope: {st!r}"
    if not why:
        c = s.connect()
        if inflight:
            s.feed(c, h1_request("GET", b"/slow", [HOSTH]))
        s.advance(0.5)
        s.fire()
        if s.listening() or s.connect() is not None:
            why = "still accepting connections after the shutdown trigger"
    if not why:
        s.advance(20)
        shut = [e for e in s.log if e[0] == "lifespan.shutdown"]
        supported = su in (0, 6)
        if not s.returned:
            why = f"serve() did not return after shutdown (alive: {s.alive_tasks()})"
        elif supported and sd == 6:
            # the application left the lifespan scope after its startup: nobody is there to be told, serve() just ends
            if shut:
                why = "lifespan.shutdown delivered to an application that had already returned"
            elif s.error is not None:
                why = f"serve() ended with {s.error!r} because the application had left the lifespan scope early"
            elif inflight:
                resps, err, _, _ = h1_parse(c.out.peek(), [("GET", b"/slow")])
                if err or not resps or not resps[0].complete:
                    why = f"in-flight request was not delivered in full: {resps!r} {err}"
        elif supported and len(shut) != 1:
            why = f"lifespan.shutdown delivered {len(shut)} times"
        elif not supported and su != 4 and shut:
            why = "lifespan.shutdown sent to an application without lifespan support"
        elif supported:
            t_shut = shut[0][-1]
            answered = [e for e in s.log if e[0] == "answered" and e[1] == b"/slow"]
            if inflight and (not answered or answered[0][-1] > t_shut):
                why = f"lifespan.shutdown at t={t_shut} before the in-flight request finished ({answered})"
            if not why and inflight:
                resps, err, _, _ = h1_parse(c.out.peek(), [("GET", b"/slow")])
                if err or not resps or not resps[0].complete:
                    why = f"in-flight request was not delivered in full: {resps!r} {err}"
            if not why:
                if sd == 3 and not _is(s.error, LifespanTimeoutError):
                    why = f"hanging lifespan shutdown did not end in a timeout error: {s.error!r}"
                elif sd in (1, 5) and not _is(s.error, LifespanFailureError) and s.error is not None and not isinstance(s.error, BaseExceptionGroup) and not getattr(s.error, "is_group", False):
                    why = f"unexpected error {s.error!r}"
    return _fin(s, done(why == "", startup=STARTUP[su], shutdown=SHUTDOWN[sd], early=early, inflight=inflight, worker=["asyncio", "trio"][flavour], why=why))


# ------------------------------------------------------------------ C15

KINDS = ["idle keep-alive connection", "half a request head", "short request (1 s left)", "request longer than the grace period", "HTTP/2 connection with a slow stream",
         "open WebSocket", "fresh connection (nothing sent)", "HTTP/2 connection with two streams finishing 0.2 s and 0.5 s after the trigger",
         "streaming response under way (1 s left) with a second request already pipelined behind it"]


@harness(
    "C15",
    dom={"k0": (0, 8), "k1": (-1, 8), "source": (0, 1), "sd": (0, 1), "flavour": (0, 1)},
    split={"k0": "each", "flavour": "each", "source": "each", "sd": "each"},
    witnesses=[{"k0": 3, "k1": 2, "source": 0, "sd": 0, "flavour": 0}, {"k0": 0, "k1": -1, "source": 1, "sd": 0, "flavour": 0}, {"k0": 4, "k1": 5, "source": 0, "sd": 1, "flavour": 0},
               {"k0": 3, "k1": 2, "source": 0, "sd": 0, "flavour": 1}, {"k0": 7, "k1": 0, "source": 1, "sd": 0, "flavour": 1}],
    budget=200,
    per_path=240,
    bounds="asyncio and trio worker_serve with 1..2 connections of 9 kinds (streaming response under way with a second request pipelined behind it, idle keep-alive, mid-head, short request, request longer than grace, HTTP/2 slow stream, open WebSocket, fresh, HTTP/2 with two streams finishing at different times within the grace period) at the trigger; trigger = callable or worker max_requests; lifespan shutdown completing or hanging; graceful_timeout=3, shutdown_timeout=4",
    encodes=["hypercorn/asyncio/run.py::worker_serve", "hypercorn/asyncio/tcp_server.py::TCPServer._idle_timeout", "hypercorn/asyncio/worker_context.py::WorkerContext.mark_request",
             "hypercorn/protocol/h11.py::H11Protocol._maybe_recycle", "hypercorn/protocol/h2.py::H2Protocol._handle_events", "hypercorn/protocol/h2.py::H2Protocol.stream_send",
             "hypercorn/trio/run.py::worker_serve", "hypercorn/trio/tcp_server.py::TCPServer._idle_timeout", "hypercorn/trio/worker_context.py::WorkerContext.mark_request"],
    stubs=["tier C worker level: asyncio on the virtual loop; trio under trio.run() with a MockClock in its own (un-traced) thread"],
)
def graceful_shutdown(k0: int, k1: int, source: int, sd: int, flavour: int) -> bool:
    """
    pre: DOM(graceful_shutdown, k0=k0, k1=k1, source=source, sd=sd, flavour=flavour)
    post: _
    """
    enter()
    k0 = conc(k0, 0, 8)
    k1 = conc(k1, -1, 8)
    flavour = conc(flavour, 0, 1)
    source = conc(source, 0, 1)
    sd = 3 if conc(sd, 0, 1) == 1 else 0
    kinds = [k0] + ([k1] if k1 >= 0 else [])
    G, ST = 3.0, 4.0
    if kinds.count(4) + kinds.count(7) > 1:
        return done(True, skipped="one HTTP/2 connection per session")
    n_requests = sum(1 for k in kinds if k in (0, 2, 3, 4, 8)) + sum(1 for k in kinds if k == 5) + 2 * kinds.count(7)
    cfg = make_config(startup_timeout=5, shutdown_timeout=ST, graceful_timeout=G, keep_alive_timeout=50,
                      max_requests=(n_requests if source == 1 else None))
    s = _session_class(flavour)(make_app(0, sd, {b"/short": 1.5, b"/long": 1000, b"/h2slow": 1000, b"/h2a": 0.7, b"/h2b": 1.0, b"/stream": 1.5}), cfg)
    conns = []
    h2c = None
    for k in kinds:
        tr = s.connect()
        conns.append(tr)
        if k == 0:
            s.feed(tr, h1_request("GET", b"/quick", [HOSTH]))
        elif k == 1:
            s.feed(tr, h1_request("GET", b"/never", [HOSTH])[:20])
        elif k == 2:
            s.feed(tr, h1_request("GET", b"/short", [HOSTH]))
        elif k == 3:
            s.feed(tr, h1_request("GET", b"/long", [HOSTH]))
        elif k == 4:
            h2c = H2Client()
            h2c.request(1, b"GET", b"/h2slow", end_stream=True)
            s.feed(tr, h2c.take())
            h2c.feed(tr.out.take())
            s.feed(tr, h2c.take())
        elif k == 5:
            s.feed(tr, ws_h1_handshake())
        elif k == 8:
            s.feed(tr, h1_request("GET", b"/stream", [HOSTH]) + h1_request("GET", b"/second", [HOSTH]))
        elif k == 7:
            h2c = H2Client()
            h2c.request(1, b"GET", b"/h2a", end_stream=True)
            h2c.request(3, b"GET", b"/h2b", end_stream=True)
            s.feed(tr, h2c.take())
            h2c.feed(tr.out.take())
            s.feed(tr, h2c.take())
    s.advance(0.5)
    if source == 0:
        s.fire()
    else:
        # the worker's own max_requests: one more request pushes it over the limit
        extra = s.connect()
        s.feed(extra, h1_request("GET", b"/quick", [HOSTH]))
        s.fired_at = s.now
    t_fire = s.fired_at
    why = ""
    if s.listening() or s.connect() is not None:
        why = "still accepting connections after the shutdown trigger"
    # idle connections are closed at once
    for k, tr in zip(kinds, conns):
        if why:
            break
        if k in (0, 6, 1) and (tr.closed_at is None or tr.closed_at > t_fire + 1e-6):
            why = f"{KINDS[k]} not closed at the trigger (closed_at={tr.closed_at}, trigger={t_fire})"
    if not why and 4 in kinds:
        tr = conns[kinds.index(4)]
        h2c.request(3, b"GET", b"/late", end_stream=True)
        s.feed(tr, h2c.take())
        h2c.feed(tr.out.take())
        st = h2c.streams[3]
        if st.status is not None or (st.reset is None and h2c.terminated is None):
            why = f"new HTTP/2 stream after the trigger was not refused: {st!r}"
    if 7 in kinds:
        tr7 = conns[kinds.index(7)]
        for _ in range(3):
            s.advance(0.3)
            h2c.feed(tr7.out.take())
            s.feed(tr7, h2c.take())
    s.advance(G + ST + 5)
    stuck = any(k in (3, 4, 5) for k in kinds)
    if not why:
        if not s.returned:
            why = f"serve() has not returned {G + ST + 5} s after the trigger (alive: {s.alive_tasks()})"
        else:
            took = s.returned_at - t_fire
            limit = (G if stuck else (1.0 if (2 in kinds or 8 in kinds) else (0.9 if 7 in kinds else 0.0))) + (ST if sd == 3 else 0.0) + 0.1
            if took > limit:
                why = f"shutdown took {took} s, limit {limit} s (grace {G}, shutdown_timeout {ST})"
    if not why and 2 in kinds:
        tr = conns[kinds.index(2)]
        resps, err, _, _ = h1_parse(tr.out.peek(), [("GET", b"/short")])
        if err or not resps or not resps[0].complete or resps[0].status != 200:
            why = f"request that finished within the grace period was not delivered in full: {resps!r} {err}"
    if not why and 8 in kinds:
        tr = conns[kinds.index(8)]
        resps, err, _, trailing = h1_parse(tr.out.peek(), [("GET", b"/stream")])
        if err or not resps or not resps[0].complete or resps[0].status != 200 or resps[0].body != b"ok":
            why = f"response under way at the trigger was not delivered in full: {resps!r} {err}"
        elif trailing or any(e[0] == "request" and e[1] == b"/second" for e in s.log):
            why = f"the request pipelined behind it was taken on after the shutdown trigger (trailing bytes {trailing[:30]!r})"
    if not why and 7 in kinds:
        h2c.feed(conns[kinds.index(7)].out.take())
        for sid, path in ((1, b"/h2a"), (3, b"/h2b")):
            st = h2c.streams[sid]
            if st.status != 200 or st.data != b"ok" or st.ended != 1:
                why = f"HTTP/2 stream {sid} ({path!r}) finished within the grace period but was not delivered in full: {st!r} (client errors {h2c.errors})"
                break
        if not why and h2c.terminated is None:
            why = "HTTP/2 client was never told to go away"
    if not why:
        shut = [e for e in s.log if e[0] == "lifespan.shutdown"]
        if len(shut) != 1:
            why = f"lifespan.shutdown delivered {len(shut)} times"
        else:
            t_shut = shut[0][-1]
            earliest = t_fire + (G if stuck else (1.0 if (2 in kinds or 8 in kinds) else (0.5 if 7 in kinds else 0.0)))
            if t_shut < earliest - 1e-6:
                why = f"lifespan.shutdown at t={t_shut}, before connections drained / grace elapsed (t={earliest})"
    if not why:
        for k, tr in zip(kinds, conns):
            if not tr.lost and not tr.closing:
                why = f"{KINDS[k]} still open after serve() returned"
    return _fin(s, done(why == "", kinds=[KINDS[k] for k in kinds], source=["callable", "max_requests"][source], shutdown=SHUTDOWN[sd], worker=["asyncio", "trio"][flavour], why=why))


# ------------------------------------------------------------------ per-connection copy of the lifespan state (both workers)


@harness(
    "C14",
    dom={"flavour": (0, 1), "proto": (0, 2), "conns": (2, 3)},
    split={"flavour": "each", "proto": "each"},
    witnesses=[{"flavour": 0, "proto": 0, "conns": 2}, {"flavour": 1, "proto": 1, "conns": 3}],
    budget=120,
    per_path=120,
    bounds="2..3 consecutive connections (HTTP/1.1, HTTP/2 via ALPN, WebSocket) served by each worker's TCPServer from one lifespan state dict; every application instance writes into scope['state']",
    encodes=["hypercorn/asyncio/tcp_server.py::TCPServer.run", "hypercorn/trio/tcp_server.py::TCPServer.run", "hypercorn/protocol/http_stream.py::HTTPStream.handle", "hypercorn/protocol/ws_stream.py::WSStream.handle"],
    stubs=["tier C runtimes (virtual asyncio loop / trio MockClock)", "the lifespan state is handed to TCPServer the way worker_serve does (one dict for all connections)"],
    tiers=("quick", "thorough"),
)
def connection_state_copy(flavour: int, proto: int, conns: int) -> bool:
    """
    pre: DOM(connection_state_copy, flavour=flavour, proto=proto, conns=conns)
    post: _
    """
    from vf.session import run_session
    from vf.stubs.b import make_config
    from vf.stubs.clients import H2Client, h1_request, ws_h1_handshake

    enter()
    flavour = "asyncio" if conc(flavour, 0, 1) == 0 else "trio"
    proto = conc(proto, 0, 2)
    conns = conc(conns, 2, 3)
    lifespan_state = {"from_lifespan": "shared"}
    seen = []

    def factory(env):
        async def app(scope, receive, send, sync_spawn=None, call_soon=None):
            seen.append(dict(scope["state"]))
            scope["state"]["touched_by"] = len(seen)
            if scope["type"] == "websocket":
                await receive()
                await send({"type": "websocket.accept"})
                await send({"type": "websocket.close", "code": 1000})
                return
            await receive()
            await send({"type": "http.response.start", "status": 200, "headers": [(b"content-length", b"0")]})
            await send({"type": "http.response.body", "body": b"", "more_body": False})

        return app

    why = ""
    for i in range(conns):
        if proto == 0:
            data, alpn = h1_request("GET", b"/c%d" % i, [(b"Host", b"example.com"), (b"Connection", b"close")]), None
        elif proto == 1:
            c = H2Client()
            c.request(1, b"GET", b"/c%d" % i, end_stream=True)
            data, alpn = c.take(), "h2"
        else:
            data, alpn = ws_h1_handshake(), None
        obs = run_session(flavour, factory, make_config(), [("feed", data), ("sleep", 0.1), ("eof",), ("sleep", 0.5)], alpn=alpn, state=lifespan_state)
        if obs["handler_error"] is not None:
            why = "connection handler raised %r" % (obs["handler_error"],)
            break
    if not why:
        if len(seen) != conns:
            why = f"{len(seen)} application instances for {conns} connections"
        elif any(st != {"from_lifespan": "shared"} for st in seen):
            why = f"a connection saw what another connection wrote into its state: {seen!r}"
        elif lifespan_state != {"from_lifespan": "shared"}:
            why = f"a connection wrote through to the lifespan state itself: {lifespan_state!r}"
    return done(why == "", flavour=flavour, protocol=["HTTP/1.1", "HTTP/2", "WebSocket"][proto], connections=conns, why=why)
