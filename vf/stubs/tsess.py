"""Tier C session executor for the trio worker: the real hypercorn.trio.tcp_server.TCPServer
under trio.run() with a manually driven MockClock and an in-memory half-closeable stream."""
from __future__ import annotations

import random
from collections import deque
from typing import Any, Callable, Dict, List, Optional

import trio
import trio.testing

import hypercorn.trio.tcp_server as ttcp
import hypercorn.trio.worker_context as twc
from hypercorn.config import Config

from vf.stubs.b import NativeBuf, make_config, native_bytes
from vf.stubs.vloop import FakeSocket


class SchedRng:
    """Deterministic replacement for trio's scheduler RNG.  `choices` (solver-chosen ints) decide
    how the first batches of runnable tasks are ordered; identity order afterwards."""

    def __init__(self, choices: Optional[List[int]] = None) -> None:
        self.choices = list(choices or [])
        self.used = 0

    def shuffle(self, batch) -> None:
        if len(batch) > 1 and self.choices:
            c = self.choices.pop(0)
            self.used += 1
            k = c % len(batch)
            if k:
                batch[:] = batch[k:] + batch[:k]

    def random(self) -> float:
        return 0.75

    def uniform(self, a, b) -> float:
        return a


def install_trio_determinism(choices: Optional[List[int]] = None) -> SchedRng:
    import trio._core._run as run

    rng = SchedRng(choices)
    run._ALLOW_DETERMINISTIC_SCHEDULING = True
    run._r = rng
    return rng


class MemStream(trio.abc.HalfCloseableStream):
    """Server end of an in-memory TCP-like connection."""

    def __init__(self, peer=("192.0.2.9", 4444), local=("198.51.100.1", 8080)) -> None:
        self.socket = FakeSocket(peer=peer, local=local)
        self._in: deque = deque()
        self._wake = trio.Event()
        self.peer_eof = False
        self.peer_reset_flag = False
        self.closed = False
        self.closed_at: Optional[float] = None
        self.out = NativeBuf()
        self.writes: List[tuple] = []
        self.write_fail_at: Optional[int] = None
        self.eof_sent = False
        self.paused = False
        self.pause_at: Optional[int] = None  # the peer stops reading once this many writes have reached it
        self._resume = trio.Event()

    # -- stream API
    async def receive_some(self, max_bytes=None) -> bytes:
        await trio.lowlevel.checkpoint()
        while True:
            if self.closed:
                raise trio.ClosedResourceError("stream closed locally")
            if self.peer_reset_flag:
                raise trio.BrokenResourceError("connection reset by peer")
            if self._in:
                data = self._in.popleft()
                if max_bytes is not None and len(data) > max_bytes:
                    self._in.appendleft(data[max_bytes:])
                    data = data[:max_bytes]
                return data
            if self.peer_eof:
                return b""
            self._wake = trio.Event()
            await self._wake.wait()

    async def send_all(self, data) -> None:
        await trio.lowlevel.checkpoint()
        if self.closed:
            raise trio.ClosedResourceError("stream closed locally")
        if self.peer_reset_flag or (self.write_fail_at is not None and len(self.writes) >= self.write_fail_at):
            # a failed write means the connection is broken in both directions (as asyncio's
            # transport reports it through connection_lost): pending and later reads fail too
            self.peer_reset_flag = True
            self._wake.set()
            raise trio.BrokenResourceError("injected write failure")
        if self.pause_at is not None and len(self.writes) >= self.pause_at:
            self.pause_at = None
            self.paused = True
        while self.paused:
            self._resume = trio.Event()
            await self._resume.wait()
            if self.closed:
                raise trio.ClosedResourceError("stream closed locally")
            if self.peer_reset_flag:
                raise trio.BrokenResourceError("connection reset by peer")
        d = native_bytes(data)
        self.writes.append((trio.current_time(), len(d)))
        self.out.add(d)

    async def wait_send_all_might_not_block(self) -> None:
        await trio.lowlevel.checkpoint()

    async def send_eof(self) -> None:
        await trio.lowlevel.checkpoint()
        if self.closed:
            raise trio.ClosedResourceError("stream closed locally")
        self.eof_sent = True

    async def aclose(self) -> None:
        if not self.closed:
            self.closed = True
            self.closed_at = trio.current_time()
            self._wake.set()
            self._resume.set()
        await trio.lowlevel.checkpoint()

    # -- what the peer does
    def peer_send(self, data: bytes) -> None:
        self._in.append(data)
        self._wake.set()

    def peer_close(self) -> None:
        self.peer_eof = True
        self._wake.set()

    def peer_reset(self) -> None:
        self.peer_reset_flag = True
        self._wake.set()
        self._resume.set()


class TlsMemStream:
    """What hypercorn's trio TCPServer needs from a trio.SSLStream: a handshake, the ALPN result,
    the transport stream underneath, and the stream operations (no send_eof, like SSLStream)."""

    def __init__(self, inner: MemStream, alpn: Optional[str]) -> None:
        self.transport_stream = inner
        self._alpn = alpn

    async def do_handshake(self) -> None:
        await trio.lowlevel.checkpoint()

    def selected_alpn_protocol(self):
        return self._alpn

    async def receive_some(self, max_bytes=None) -> bytes:
        return await self.transport_stream.receive_some(max_bytes)

    async def send_all(self, data) -> None:
        await self.transport_stream.send_all(data)

    async def aclose(self) -> None:
        await self.transport_stream.aclose()


class TEnv:
    flavour = "trio"

    def __init__(self, clock) -> None:
        self.clock = clock

    def now(self) -> float:
        return trio.current_time()

    async def sleep(self, dt) -> None:
        await trio.sleep(dt)

    def event(self):
        return trio.Event()


def run_trio_session(app_factory: Callable, config: Optional[Config], actions: List[tuple], alpn: Optional[str] = None,
                     max_requests: Optional[int] = None, sched_choices: Optional[List[int]] = None, state: Optional[dict] = None) -> Dict[str, Any]:
    """Run `actions` against one connection served by the trio TCPServer; returns the observation."""
    install_trio_determinism(sched_choices)
    obs: Dict[str, Any] = {"snaps": [], "handler_done": False, "handler_error": None, "closed_at": None, "alive": [], "flavour": "trio"}
    cfg = config or make_config()
    clock = trio.testing.MockClock()
    final: Dict[str, Any] = {}

    async def settle() -> None:
        await trio.testing.wait_all_tasks_blocked()

    async def main() -> None:
        env = TEnv(clock)
        app = app_factory(env)
        ctx = twc.WorkerContext(max_requests)
        stream = MemStream()
        obs["ctx"] = ctx
        t0 = trio.current_time()

        async def serve() -> None:
            try:
                served = TlsMemStream(stream, alpn) if alpn is not None else stream
                await ttcp.TCPServer(app, cfg, ctx, state if state is not None else {}, served).run()
            except BaseException as e:  # noqa: BLE001
                if not isinstance(e, trio.Cancelled):
                    obs["handler_error"] = e
                raise
            obs["handler_done_at"] = trio.current_time() - t0
            obs["handler_done"] = True

        def snap(label) -> None:
            obs["snaps"].append({"label": label, "t": trio.current_time() - t0, "out": stream.out.take(),
                                 "closed_at": None if stream.closed_at is None else stream.closed_at - t0, "handler_done": obs["handler_done"]})

        try:
            async with trio.open_nursery() as nursery:
                nursery.start_soon(serve)
                await settle()
                for act in actions:
                    kind = act[0]
                    if kind == "feed":
                        if act[1]:
                            stream.peer_send(act[1])
                    elif kind == "eof":
                        stream.peer_close()
                    elif kind == "reset":
                        stream.peer_reset()
                    elif kind == "write_fail_at":
                        stream.write_fail_at = act[1]
                    elif kind == "pause_at_write":
                        stream.pause_at = act[1]
                    elif kind == "pause":
                        stream.paused = True
                    elif kind == "resume":
                        stream.paused = False
                        stream._resume.set()
                    elif kind == "terminate":
                        await ctx.terminated.set()
                    elif kind == "call":
                        r = act[1](env)
                        if hasattr(r, "__await__"):
                            await r
                    elif kind == "sleep":
                        remaining = act[1]
                        while remaining > 1e-12:
                            await settle()
                            nd = trio.lowlevel.current_statistics().seconds_to_next_deadline
                            step = remaining if nd > remaining else max(nd, 0.0)
                            clock.jump(step)
                            remaining -= step
                            await settle()
                            if step == 0 and nd <= 0:
                                await trio.sleep(0)
                    await settle()
                    snap(act if kind != "feed" else ("feed", len(act[1])))
                obs["closed_at"] = None if stream.closed_at is None else stream.closed_at - t0
                obs["eof_sent"] = stream.eof_sent
                obs["alive_before_cancel"] = not obs["handler_done"]
                final.update(done=obs["handler_done"], at=obs.get("handler_done_at"), err=obs["handler_error"])
                # hypercorn shields its writes from cancellation: a write still parked on a peer that never
                # reads again would keep trio.run() from returning, so the stream is broken before the teardown
                stream.paused = False
                stream.peer_reset()
                nursery.cancel_scope.cancel()
        except BaseException as e:  # noqa: BLE001
            if obs["handler_error"] is None and not isinstance(e, trio.Cancelled):
                obs["handler_error"] = e

    trio.run(main, clock=clock)
    if final:
        # what happened during the forced teardown is not part of the observation
        obs["handler_done"], obs["handler_error"] = final["done"], final["err"]
        if final["at"] is None:
            obs.pop("handler_done_at", None)
    return obs
