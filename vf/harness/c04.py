"""C04 no client input causes an internal error; HTTP/2 faults stay on their stream."""
from __future__ import annotations

import hyperframe.frame as hf

from vf.rt import DOM, MODE, NoTracing, conc, done, enter, harness
from vf.stubs.b import Conn, make_config
from vf.stubs.clients import H2Client, H2FrameObserver, WSClient, h1_parse, h1_request, split_h1_head, untraced, ws_h1_handshake

QUICK = MODE["tier"] != "thorough"


class _App:
    """Answers every HTTP request at once (without waiting for the body) and accepts websockets."""

    def __init__(self) -> None:
        self.scopes = []

    async def __call__(self, scope, receive, send, sync_spawn=None, call_soon=None):
        self.scopes.append(scope)
        if scope["type"] == "websocket" and scope["raw_path"].startswith(b"/reject"):
            # refuses the handshake and stays around (it has not returned yet when the client's next frame arrives)
            await receive()
            if scope["raw_path"] == b"/reject-close":
                await send({"type": "websocket.close", "code": 1008})
            else:
                await send({"type": "websocket.http.response.start", "status": 401, "headers": [(b"content-length", b"2")]})
                await send({"type": "websocket.http.response.body", "body": b"no", "more_body": False})
            while True:
                m = await receive()
                if m["type"] == "websocket.disconnect":
                    return
        if scope["type"] == "websocket":
            await receive()
            await send({"type": "websocket.accept"})
            while True:
                m = await receive()
                if m["type"] == "websocket.disconnect":
                    return
                if m["type"] == "websocket.receive":
                    await send({"type": "websocket.send", "text": "ack"})
        if scope["raw_path"] == b"/sibling":
            # the ordinary neighbour: reads its whole request body before answering
            while True:
                m = await receive()
                if m["type"] != "http.request" or not m.get("more_body"):
                    break
        payload = b"ok:" + scope["raw_path"]
        await send({"type": "http.response.start", "status": 200, "headers": [(b"content-length", str(len(payload)).encode())]})
        await send({"type": "http.response.body", "body": payload, "more_body": False})
        while True:
            m = await receive()
            if m["type"] == "http.disconnect":
                return


# ------------------------------------------------------------------ HTTP/2 odd-but-legal traffic

KINDS = [
    "non-ASCII :path", ":path with NUL", "ordinary CONNECT (no :path)", "lower-case method", "CONNECT with :protocol=other",
    "DATA after the response completed", "trailers after the response completed", "PRIORITY before HEADERS", "RST_STREAM on a finished stream",
    "WINDOW_UPDATE on a finished stream", "headers split over CONTINUATION", "padded HEADERS and DATA", "zero-length DATA frames", "unknown frame type",
    "three PINGs", "SETTINGS change mid-connection", "percent-encoded non-UTF-8 path", "empty header value and huge header count",
    "WINDOW_UPDATE on a stream answered before its request body ended", "RST_STREAM(NO_ERROR) on a stream answered before its request body ended",
    "WINDOW_UPDATE on the connection and on an idle (never opened) stream id is not sent; PRIORITY for a finished stream",
    "a whole connection window (65535 bytes) of DATA after the response completed, request body never ended",
    "extended CONNECT (WebSocket) refused by the application with websocket.close, then DATA on that stream",
    "extended CONNECT (WebSocket) refused with a denial response, then DATA on that stream",
]


@untraced
def _raw_headers(c: H2Client, sid: int, headers, end_stream: bool, pad: int = 0, split: bool = False) -> bytes:
    block = c.conn.encoder.encode(headers)
    # keep the client's own state machine in step: it believes it has sent these headers
    out = b""
    if split and len(block) > 2:
        a, b = block[: len(block) // 2], block[len(block) // 2:]
        f1 = hf.HeadersFrame(sid, a)
        if end_stream:
            f1.flags.add("END_STREAM")
        f2 = hf.ContinuationFrame(sid, b)
        f2.flags.add("END_HEADERS")
        out = f1.serialize() + f2.serialize()
    else:
        f = hf.HeadersFrame(sid, block)
        f.flags.add("END_HEADERS")
        if end_stream:
            f.flags.add("END_STREAM")
        if pad:
            f.flags.add("PADDED")
            f.pad_length = pad
        out = f.serialize()
    return out


_FLOW = [0]  # flow-controlled bytes the client has sent on this connection (reset per execution)
_SIB_BODY = b"sibling-body"


@untraced
def _raw_data(sid: int, data: bytes, end_stream: bool, pad: int = 0) -> bytes:
    _FLOW[0] += len(data) + (pad + 1 if pad else 0)
    f = hf.DataFrame(sid, data)
    if end_stream:
        f.flags.add("END_STREAM")
    if pad:
        f.flags.add("PADDED")
        f.pad_length = pad
    return f.serialize()


@untraced
def _raw(frame) -> bytes:
    return frame.serialize()


def _std(method=b"GET", path=b"/odd", extra=()):
    return [(b":method", method), (b":scheme", b"http"), (b":authority", b"example.com"), (b":path", path)] + list(extra)


def _odd_traffic(kind: int, c: H2Client, conn: Conn, sid: int, obs: H2FrameObserver) -> None:
    """Send the odd traffic of `kind` on stream `sid` (raw frames where h2's client API refuses)."""

    def pump():
        obs.feed(conn.take())

    if kind == 0:
        conn.feed(_raw_headers(c, sid, _std(path=b"/caf\xc3\xa9\xff"), True))
    elif kind == 1:
        conn.feed(_raw_headers(c, sid, _std(path=b"/a\x00b"), True))
    elif kind == 2:
        conn.feed(_raw_headers(c, sid, [(b":method", b"CONNECT"), (b":authority", b"example.com:443")], False))
    elif kind == 3:
        conn.feed(_raw_headers(c, sid, _std(method=b"get"), True))
    elif kind == 4:
        conn.feed(_raw_headers(c, sid, [(b":method", b"CONNECT"), (b":protocol", b"other"), (b":scheme", b"http"), (b":authority", b"example.com"), (b":path", b"/x")], False))
    elif kind == 5:
        conn.feed(_raw_headers(c, sid, _std(method=b"POST"), False))
        pump()
        conn.feed(_raw_data(sid, b"late body", False))
        pump()
        conn.feed(_raw_data(sid, b"", True))
    elif kind == 6:
        conn.feed(_raw_headers(c, sid, _std(method=b"POST"), False))
        pump()
        conn.feed(_raw_headers(c, sid, [(b"x-trailer", b"1")], True))
    elif kind == 7:
        conn.feed(_raw(hf.PriorityFrame(sid, depends_on=0, stream_weight=10)))
        conn.feed(_raw_headers(c, sid, _std(), True))
    elif kind == 8:
        conn.feed(_raw_headers(c, sid, _std(), True))
        pump()
        conn.feed(_raw(hf.RstStreamFrame(sid, error_code=8)))
    elif kind == 9:
        conn.feed(_raw_headers(c, sid, _std(), True))
        pump()
        conn.feed(_raw(hf.WindowUpdateFrame(sid, window_increment=100)))
    elif kind == 10:
        conn.feed(_raw_headers(c, sid, _std(extra=[(b"x-long", b"v" * 300)]), True, split=True))
    elif kind == 11:
        conn.feed(_raw_headers(c, sid, _std(method=b"POST"), False, pad=7))
        conn.feed(_raw_data(sid, b"padded", True, pad=9))
    elif kind == 12:
        conn.feed(_raw_headers(c, sid, _std(method=b"POST"), False))
        conn.feed(_raw_data(sid, b"", False))
        conn.feed(_raw_data(sid, b"", False))
        conn.feed(_raw_data(sid, b"", True))
    elif kind == 13:
        body = b"mystery"
        conn.feed(len(body).to_bytes(3, "big") + bytes([0xFA, 0x00]) + sid.to_bytes(4, "big") + body)  # unknown frame type 0xFA
        conn.feed(_raw_headers(c, sid, _std(), True))
    elif kind == 14:
        for i in range(3):
            conn.feed(_raw(hf.PingFrame(0, b"ping%04d" % i)))
        conn.feed(_raw_headers(c, sid, _std(), True))
    elif kind == 15:
        conn.feed(_raw(hf.SettingsFrame(0, settings={hf.SettingsFrame.INITIAL_WINDOW_SIZE: 100, hf.SettingsFrame.MAX_FRAME_SIZE: 16384})))
        conn.feed(_raw_headers(c, sid, _std(), True))
    elif kind == 16:
        conn.feed(_raw_headers(c, sid, _std(path=b"/%ff%fe?%80"), True))
    elif kind == 17:
        conn.feed(_raw_headers(c, sid, _std(extra=[(b"x-e", b"")] + [(b"x-%d" % i, b"v") for i in range(60)]), True))
    elif kind in (18, 19):
        # request body still open on the client side when the (complete) response arrives
        conn.feed(_raw_headers(c, sid, _std(method=b"POST"), False))
        pump()
        if kind == 18:
            conn.feed(_raw(hf.WindowUpdateFrame(sid, window_increment=1000)))
        else:
            conn.feed(_raw(hf.RstStreamFrame(sid, error_code=0)))
    elif kind == 20:
        conn.feed(_raw_headers(c, sid, _std(), True))
        pump()
        conn.feed(_raw(hf.WindowUpdateFrame(0, window_increment=1000)))
        conn.feed(_raw(hf.PriorityFrame(sid, depends_on=0, stream_weight=200)))
    elif kind in (22, 23):
        path = b"/reject-close" if kind == 22 else b"/reject-http"
        conn.feed(_raw_headers(c, sid, [(b":method", b"CONNECT"), (b":protocol", b"websocket"), (b":scheme", b"http"), (b":authority", b"example.com"), (b":path", path),
                                        (b"sec-websocket-version", b"13")], False))
        pump()
        conn.feed(_raw_data(sid, b"\x81\x02hi", False))  # a WebSocket text frame the client sent before it saw the refusal
        pump()
    else:
        # the client is entitled to keep uploading: neither the stream window nor the connection window is exceeded
        conn.feed(_raw_headers(c, sid, _std(method=b"POST"), False))
        pump()
        room = min(65535, 65535 - _FLOW[0] + obs.window_updates.get(0, 0))
        while room > 0:
            n = min(16384, room)
            conn.feed(_raw_data(sid, b"z" * n, False))
            room -= n
            pump()


def _send_sibling(c: H2Client, conn: Conn, sib: int, obs: H2FrameObserver) -> str:
    """POST /sibling with a small body, sent only as far as the connection window the server has granted allows."""
    conn.feed(_raw_headers(c, sib, _std(method=b"POST", path=b"/sibling", extra=[(b"content-length", b"%d" % len(_SIB_BODY))]), False))
    obs.feed(conn.take())
    if obs.goaway is not None or conn.server_closed:
        return ""
    room = 65535 - _FLOW[0] + obs.window_updates.get(0, 0)
    if room < len(_SIB_BODY):
        return f"the connection window is exhausted ({room} bytes left after {_FLOW[0]} sent): the neighbouring upload cannot proceed"
    conn.feed(_raw_data(sib, _SIB_BODY, True))
    return ""


@harness(
    "C04",
    dom={"n": (1, 2), "k0": (0, len(KINDS) - 1), "k1": (0, len(KINDS) - 1), "k2": (0, len(KINDS) - 1), "sib_first": "bool", "flavour": (0, 1)},
    thorough_dom={"n": (1, 3)},
    split={"k0": "each"},
    thorough_split={"k0": "each", "k1": "each"},
    witnesses=[{"n": 2, "k0": 7, "k1": 10, "k2": 0, "sib_first": False, "flavour": 0}, {"n": 1, "k0": 14, "k1": 0, "k2": 0, "sib_first": True, "flavour": 1}],
    budget={"quick": 120, "thorough": 900},
    per_path=60,
    bounds="sequences of 1..2 (thorough 3) odd-but-legal HTTP/2 exchanges from 24 kinds (non-ASCII/NUL path, ordinary CONNECT, DATA/trailers after the response completed, PRIORITY before HEADERS, RST/WINDOW_UPDATE on finished streams, CONTINUATION, padding, empty DATA, unknown frame type, PING burst, SETTINGS change, ...) each on its own stream, next to a normal sibling upload (POST with a body, sent within the flow-control credit the server has granted) before or after them; both worker flavours",
    encodes=["hypercorn/protocol/h2.py::H2Protocol.handle", "hypercorn/protocol/h2.py::H2Protocol._handle_events", "hypercorn/protocol/h2.py::H2Protocol._create_stream",
             "hypercorn/protocol/http_stream.py::HTTPStream.handle", "hypercorn/protocol/ws_stream.py::WSStream.handle", "hypercorn/protocol/h2.py::H2Protocol._priority_updated"],
    stubs=["tier B runtime", "frames that h2's client API refuses to emit are serialised with hyperframe/hpack directly", "independent h2 client parses the server's output"],
)
def h2_odd_traffic(n: int, k0: int, k1: int, k2: int, sib_first: bool, flavour: int) -> bool:
    """
    pre: DOM(h2_odd_traffic, n=n, k0=k0, k1=k1, k2=k2, sib_first=sib_first, flavour=flavour)
    post: _
    """
    enter()
    _FLOW[0] = 0
    n = conc(n, 1, 3)
    ks = (k0, k1, k2)
    kinds = [conc(ks[i], 0, len(KINDS) - 1) for i in range(n)]
    sib_first = True if sib_first else False
    flavour = "asyncio" if conc(flavour, 0, 1) == 0 else "trio"
    app = _App()
    conn = Conn(app, make_config(), alpn="h2", flavour=flavour)
    c = H2Client()
    obs = H2FrameObserver()
    conn.feed(c.take())
    c.feed(conn.take())
    conn.feed(c.take())
    conn.take()
    sib = 2 * n + 1
    if sib_first:
        # stream ids must increase: the sibling takes the lowest id, the odd ones follow
        sib = 1
        stalled = _send_sibling(c, conn, sib, obs)
    for i, kd in enumerate(kinds):
        sid = 2 * i + (3 if sib_first else 1)
        _odd_traffic(kd, c, conn, sid, obs)
        obs.feed(conn.take())
    if not sib_first:
        stalled = _send_sibling(c, conn, sib, obs)
    obs.feed(conn.take())
    why = ""
    if stalled:
        why = stalled
    elif conn.sched.errors:
        why = "unhandled exception in the connection: %s %r" % (conn.sched.errors[0][0], conn.sched.errors[0][1])
    elif obs.errors:
        why = "server output does not parse as HTTP/2 frames: %r" % (obs.errors,)
    else:
        st = obs.streams.get(sib)
        ok_sib = st is not None and st.status == 200 and st.data == b"ok:/sibling" and st.ended == 1
        conn_level = obs.goaway is not None or conn.server_closed
        if not ok_sib and not conn_level:
            why = f"sibling stream did not complete and the connection was not terminated: {st!r}"
        elif not ok_sib and conn_level and all(KINDS[k] not in _CONNECTION_LEVEL for k in kinds):
            why = f"connection terminated (code {obs.goaway}) by traffic that is at most a stream-level problem: {[KINDS[k] for k in kinds]}"
    return done(why == "", kinds=[KINDS[k] for k in kinds], sib_first=sib_first, flavour=flavour, why=why)


# kinds for which tearing down the whole connection is a legitimate answer (h2 classifies them as connection errors)
_CONNECTION_LEVEL = {"lower-case method", "DATA after the response completed", "trailers after the response completed", ":path with NUL"}


# ------------------------------------------------------------------ single-byte mutations of valid sessions

REPL = [0x00, 0xFF, 0x0D, 0x0A, 0x20]


def _transcripts():
    t = []
    t.append(("h1 GET", h1_request("GET", b"/a?b=1", [(b"Host", b"example.com"), (b"X-A", b"1")]), "h1"))
    t.append(("h1 POST chunked", h1_request("POST", b"/c", [(b"Host", b"example.com")], [b"ab", b"cde"], "chunked"), "h1"))
    t.append(("h1 POST length + pipelined GET", h1_request("POST", b"/p", [(b"Host", b"example.com")], [b"xyz"], "content-length") + h1_request("GET", b"/n", [(b"Host", b"example.com")]), "h1"))
    c = H2Client()
    c.request(1, b"POST", b"/h2", [(b"x-a", b"1")], end_stream=False)
    c.data(1, b"body", end_stream=True)
    c.request(3, b"GET", b"/h2b", end_stream=True)
    t.append(("h2 two streams", c.take(), "h2"))
    ws = WSClient()
    t.append(("ws handshake", ws_h1_handshake(), "ws"))
    return t


TRANSCRIPTS = _transcripts()
_TLEN = [len(t[1]) for t in TRANSCRIPTS]
PSTRIDE = 3 if QUICK else 1


@harness(
    "C04",
    dom={"ti": (0, len(TRANSCRIPTS) - 1), "p": (0, max(_TLEN) // PSTRIDE + 1), "r": (0, 4), "split": "bool"},
    split={"ti": "each", "r": "each"},
    thorough_split={"ti": "each", "r": "each", "p": 4},
    witnesses=[{"ti": 0, "p": 1, "r": 0, "split": False}, {"ti": 3, "p": 10, "r": 1, "split": True}],
    budget={"quick": 150, "thorough": 900},
    per_path=60,
    bounds="5 valid transcripts (HTTP/1 GET, chunked POST, POST + pipelined GET, HTTP/2 with two streams, WebSocket handshake) with one byte at every position (quick: every 3rd) replaced by one of {NUL, 0xFF, CR, LF, space}, delivered in one read or split at the mutated byte",
    encodes=["hypercorn/protocol/h11.py::H11Protocol._handle_events", "hypercorn/protocol/h11.py::H11Protocol._send_error_response", "hypercorn/protocol/h2.py::H2Protocol.handle",
             "hypercorn/protocol/__init__.py::ProtocolWrapper.handle", "hypercorn/protocol/ws_stream.py::Handshake.__init__"],
    stubs=["tier B runtime"],
)
def byte_mutation(ti: int, p: int, r: int, split: bool) -> bool:
    """
    pre: DOM(byte_mutation, ti=ti, p=p, r=r, split=split)
    post: _
    """
    enter()
    ti = conc(ti, 0, len(TRANSCRIPTS) - 1)
    p = conc(p, 0, max(_TLEN) // PSTRIDE + 1) * PSTRIDE + (ti % PSTRIDE)
    r = REPL[conc(r, 0, 4)]
    split = True if split else False
    name, data, kind = TRANSCRIPTS[ti]
    if p >= len(data):
        return done(True, skipped="position beyond the transcript")
    if data[p] == r:
        return done(True, skipped="replacement equals the original byte")
    mutated = data[:p] + bytes([r]) + data[p + 1:]
    app = _App()
    conn = Conn(app, make_config())
    if split and 0 < p:
        conn.feed(mutated[:p])
        conn.feed(mutated[p:])
    else:
        conn.feed(mutated)
    conn.eof()
    why = ""
    if conn.sched.errors:
        why = "unhandled exception in the connection: %s %r" % (conn.sched.errors[0][0], conn.sched.errors[0][1])
    elif kind == "h1":
        out = conn.out.peek()
        if out:
            head = split_h1_head(out)
            if head is None:
                why = f"server wrote something that is not an HTTP/1 response head: {out[:60]!r}"
    return done(why == "", transcript=name, p=p, r=r, split=split, why=why)


# ------------------------------------------------------------------ websocket handshake header values

HV = [b"\xe9", b"caf\xc3\xa9", b"\xff\xfe", b"a,\x80", b"", b",", b" , ,", b"x" * 300]
HN = [b"Connection", b"Upgrade", b"Sec-WebSocket-Protocol", b"Sec-WebSocket-Extensions", b"Sec-WebSocket-Version", b"Sec-WebSocket-Key"]


@harness(
    "C04",
    dom={"hi": (0, len(HN) - 1), "vi": (0, len(HV) - 1), "carrier": (0, 1), "extra": "bool"},
    split={"hi": "each"},
    witnesses=[{"hi": 2, "vi": 0, "carrier": 0, "extra": True}, {"hi": 0, "vi": 3, "carrier": 1, "extra": False}],
    budget=100,
    per_path=60,
    bounds="WebSocket handshakes (HTTP/1.1 upgrade and HTTP/2 extended CONNECT) in which one of 6 handshake headers carries one of 8 odd values (non-ASCII, invalid UTF-8, empty, only commas, very long), either replacing the header or as an additional header line",
    encodes=["hypercorn/protocol/ws_stream.py::Handshake.__init__", "hypercorn/protocol/ws_stream.py::WSStream.handle", "hypercorn/protocol/h11.py::H11Protocol._create_stream"],
    stubs=["tier B runtime"],
)
def ws_handshake_odd_values(hi: int, vi: int, carrier: int, extra: bool) -> bool:
    """
    pre: DOM(ws_handshake_odd_values, hi=hi, vi=vi, carrier=carrier, extra=extra)
    post: _
    """
    enter()
    name = HN[conc(hi, 0, len(HN) - 1)]
    value = HV[conc(vi, 0, len(HV) - 1)]
    carrier = conc(carrier, 0, 1)
    extra = True if extra else False
    app = _App()
    why = ""
    if carrier == 0:
        base = [(b"Host", b"example.com"), (b"Upgrade", b"websocket"), (b"Connection", b"Upgrade"), (b"Sec-WebSocket-Key", b"dGhlIHNhbXBsZSBub25jZQ=="), (b"Sec-WebSocket-Version", b"13")]
        hs = base + [(name, value)] if extra else [(n, v) for n, v in base if n != name] + [(name, value)]
        conn = Conn(app, make_config())
        conn.feed(h1_request("GET", b"/ws", hs))
        conn.eof()
        out = conn.out.peek()
        if out and split_h1_head(out) is None:
            why = f"not a response head: {out[:60]!r}"
    else:
        conn = Conn(app, make_config(), alpn="h2")
        c = H2Client()
        obs = H2FrameObserver()
        conn.feed(c.take())
        c.feed(conn.take())
        conn.feed(c.take())
        conn.take()
        hs = [(b":method", b"CONNECT"), (b":protocol", b"websocket"), (b":scheme", b"http"), (b":authority", b"example.com"), (b":path", b"/ws"), (b"sec-websocket-version", b"13")]
        if not extra:
            hs = [(n, v) for n, v in hs if n != name.lower()]
        hs.append((name.lower(), value))
        conn.feed(_raw_headers(c, 1, hs, False))
        conn.feed(_raw_headers(c, 3, _std(path=b"/sibling"), True))
        obs.feed(conn.take())
        st = obs.streams.get(3)
        if not conn.sched.errors and not (st is not None and st.status == 200 and st.ended == 1) and obs.goaway is None:
            why = f"sibling stream did not complete: {st!r}"
    if conn.sched.errors:
        why = "unhandled exception in the connection: %s %r" % (conn.sched.errors[0][0], conn.sched.errors[0][1])
    return done(why == "", header=name, value=value, carrier=["h1", "h2"][carrier], extra=extra, why=why)


# ------------------------------------------------------------------ HTTP/1 request header values

H1N = [b"Host", b"Upgrade", b"Connection", b"HTTP2-Settings", b"Content-Length", b"Transfer-Encoding", b"Expect", b"TE"]
H1V = HV + [b"h2c", b"a", b"AAAAAAAAAA", b"AAIAAAAC", b"abcd", b"100-continue", b"-1", b"chunked, gzip", b"example.com:80"]


@harness(
    "C04",
    dom={"hi": (0, len(H1N) - 1), "vi": (0, len(H1V) - 1), "base": (0, 1), "names": "bool", "extra": "bool"},
    split={"hi": "each"},
    witnesses=[{"hi": 0, "vi": 2, "base": 0, "names": True, "extra": False}, {"hi": 3, "vi": 9, "base": 1, "names": False, "extra": False}, {"hi": 3, "vi": 11, "base": 1, "names": False, "extra": True}],
    budget=100,
    per_path=60,
    bounds="HTTP/1.1 requests (plain GET, or an h2c upgrade request with valid HTTP2-Settings) in which one of 8 headers carries one of 17 odd values (non-ASCII, invalid UTF-8, empty, commas, very long, not base64, base64 of a truncated / invalid SETTINGS payload, negative length, ...), replacing the header or as an additional line; with and without config.server_names",
    encodes=["hypercorn/protocol/h11.py::H11Protocol._check_protocol", "hypercorn/protocol/h11.py::H2CProtocolRequiredError.__init__", "hypercorn/protocol/__init__.py::ProtocolWrapper.handle",
             "hypercorn/utils.py::valid_server_name", "hypercorn/protocol/h2.py::H2Protocol.initiate"],
    stubs=["tier B runtime"],
)
def h1_odd_header_values(hi: int, vi: int, base: int, names: bool, extra: bool) -> bool:
    """
    pre: DOM(h1_odd_header_values, hi=hi, vi=vi, base=base, names=names, extra=extra)
    post: _
    """
    enter()
    name = H1N[conc(hi, 0, len(H1N) - 1)]
    value = H1V[conc(vi, 0, len(H1V) - 1)]
    base = conc(base, 0, 1)
    names = True if names else False
    extra = True if extra else False
    hs = [(b"Host", b"example.com")]
    if base == 1:
        c = H2Client(upgrade=True)
        hs += [(b"Connection", b"Upgrade, HTTP2-Settings"), (b"Upgrade", b"h2c"), (b"HTTP2-Settings", c.upgrade_settings)]
    if not extra:
        hs = [(n, v) for n, v in hs if n != name]
    hs.append((name, value))
    app = _App()
    conn = Conn(app, make_config(server_names=["example.com"]) if names else make_config())
    conn.feed(h1_request("GET", b"/odd", hs))
    conn.eof()
    out = conn.out.peek()
    why = ""
    if conn.sched.errors:
        why = "unhandled exception in the connection: %s %r" % (conn.sched.errors[0][0], conn.sched.errors[0][1])
    elif out and split_h1_head(out) is None:
        why = f"server wrote something that is not an HTTP/1 response head: {out[:60]!r}"
    elif not out and not conn.server_closed:
        why = "no response and the connection is still open after the client's EOF"
    return done(why == "", header=name, value=value, request=["plain GET", "h2c upgrade"][base], server_names=names, extra=extra, why=why)


# ------------------------------------------------------------------ HTTP/1 body framing errors after a valid head

_BODY_ERRORS = [
    ("chunk size that is not hexadecimal", b"Transfer-Encoding: chunked", [b"zz\r\nabc\r\n"]),
    ("negative chunk size after a good chunk", b"Transfer-Encoding: chunked", [b"3\r\nabc\r\n", b"-1\r\n"]),
    ("Content-Length body cut short by the client's EOF", b"Content-Length: 10", [b"abc", None]),
    ("chunk longer than announced", b"Transfer-Encoding: chunked", [b"3\r\nabcdef\r\n"]),
    ("EOF in the middle of a chunk", b"Transfer-Encoding: chunked", [b"5\r\nab", None]),
    ("bare LF chunk terminator garbage", b"Transfer-Encoding: chunked", [b"3\r\nabcXX0\r\n\r\n"]),
]


@harness(
    "C04",
    dom={"ei": (0, len(_BODY_ERRORS) - 1), "seg": (0, 2), "flavour": (0, 1), "ai": (0, 1)},
    split={"ei": "each"},
    witnesses=[{"ei": 0, "seg": 0, "flavour": 0, "ai": 0}, {"ei": 2, "seg": 1, "flavour": 1, "ai": 1}],
    budget=100,
    per_path=60,
    bounds="a well-formed HTTP/1.1 POST head followed by one of 6 body framing errors (bad chunk size, negative size, short Content-Length body + EOF, over-long chunk, EOF inside a chunk, garbage terminator) x segmentation {head and body in one read, separate reads, byte-wise body} x application {reads the body before answering, waits for the disconnect}; both worker flavours",
    encodes=["hypercorn/protocol/h11.py::H11Protocol._handle_events", "hypercorn/protocol/h11.py::H11Protocol._send_error_response", "hypercorn/protocol/http_stream.py::HTTPStream.handle"],
    stubs=["tier B runtime", "independent h11 client parses the answer"],
)
def h1_malformed_body(ei: int, seg: int, flavour: int, ai: int) -> bool:
    """
    pre: DOM(h1_malformed_body, ei=ei, seg=seg, flavour=flavour, ai=ai)
    post: _
    """
    enter()
    name, framing, parts = _BODY_ERRORS[conc(ei, 0, len(_BODY_ERRORS) - 1)]
    seg = conc(seg, 0, 2)
    flavour = "asyncio" if conc(flavour, 0, 1) == 0 else "trio"
    ai = conc(ai, 0, 1)
    seen = []

    async def app(scope, receive, send, sync_spawn=None, call_soon=None):
        while True:
            m = await receive()
            seen.append(m["type"])
            if m["type"] != "http.request":
                return
            if ai == 0 and not m.get("more_body"):
                break
        await send({"type": "http.response.start", "status": 200, "headers": [(b"content-length", b"2")]})
        await send({"type": "http.response.body", "body": b"ok", "more_body": False})

    head = b"POST /u HTTP/1.1\r\nHost: example.com\r\n" + framing + b"\r\n\r\n"
    conn = Conn(app, make_config(), flavour=flavour)
    feeds = []
    if seg == 0:
        first = b"".join(p for p in parts if p is not None)
        feeds = [head + first] + [None for p in parts if p is None]
    elif seg == 1:
        feeds = [head] + list(parts)
    else:
        feeds = [head]
        for p in parts:
            feeds += [None] if p is None else [p[i:i + 1] for i in range(len(p))]
    for f in feeds:
        if f is None:
            conn.eof()
        else:
            conn.feed(f)
    out = conn.out.peek()
    why = ""
    if conn.sched.errors:
        why = "unhandled exception in the connection: %s %r" % (conn.sched.errors[0][0], conn.sched.errors[0][1])
    else:
        resps, err, closed, trailing = h1_parse(out, [("POST", b"/u")], eof=conn.server_closed)
        if err or len(resps) != 1 or not resps[0].complete:
            why = f"no complete error response to a malformed body ({name}): {out[:60]!r} {err}"
        elif not 400 <= resps[0].status < 500:
            why = f"malformed body ({name}) answered with {resps[0].status}"
        elif not conn.server_closed:
            why = "connection left open after a framing error"
        elif seen.count("http.disconnect") != 1 or seen[-1] != "http.disconnect":
            why = f"application messages {seen!r}: expected exactly one final http.disconnect"
    return done(why == "", error=name, seg=seg, flavour=flavour, app=["answers after the body", "waits for the disconnect"][ai], why=why)
