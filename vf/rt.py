"""Runtime helpers shared by every harness.

A harness is a plain function with typed parameters (the symbolic variables), a PEP-316
docstring `pre: DOM(<fn>, locals...)` / `post: _`, and a body that drives real hypercorn
code and ends in `return done(ok, ...)`.  The same function is

  * executed symbolically by CrossHair (vf.job), which either exhausts its path tree
    ("Confirmed over all paths") or returns an assignment, and
  * executed natively (no tracer) for witnesses and for replaying counterexamples.
"""
from __future__ import annotations

import sys
from typing import Any, Callable, Dict, List, Optional

try:  # crosshair is only present in /verif/.venv
    from crosshair.core import deep_realize, realize
    from crosshair.statespace import context_statespace
    from crosshair.tracers import NoTracing, ResumedTracing, is_tracing
except Exception:  # pragma: no cover - native replay without crosshair
    def is_tracing() -> bool:  # type: ignore
        return False

    class NoTracing:  # type: ignore
        def __enter__(self):
            return self

        def __exit__(self, *a):
            return False

    ResumedTracing = NoTracing  # type: ignore

    def realize(x):  # type: ignore
        return x

    def deep_realize(x):  # type: ignore
        return x


# ---------------------------------------------------------------------------- registry

REGISTRY: Dict[str, Dict[str, Callable]] = {}

# Set by vf.job before analysis.
MODE: Dict[str, Any] = {
    "twin": False,  # reachability twin: the final assertion is replaced by `False`
    "part": {},  # partition constraints: name -> (lo, hi)
    "exclude": [],  # known-finding regions (python expressions over the harness args)
    "tier": "quick",
}

STATS: Dict[str, Any] = {
    "entered": 0,  # harness entries (paths started)
    "reached": 0,  # paths that reached the final assertion
    "vectors": set(),  # distinct realised choice vectors that reached the assertion
    "samples": [],
    "last_fail": None,
    "notes": [],
}


def harness(
    prop: str,
    dom: Dict[str, Any],
    split: Optional[Dict[str, Any]] = None,
    witnesses: Optional[List[dict]] = None,
    budget: Any = 60,
    bounds: str = "",
    tiers: Any = ("quick", "thorough"),
    thorough_dom: Optional[Dict[str, Any]] = None,
    thorough_split: Optional[Dict[str, Any]] = None,
    per_path: float = 60.0,
    stubs: Optional[List[str]] = None,
    encodes: Optional[List[str]] = None,
):
    """Register a harness.

    dom:   name -> (lo, hi) for ints | "bool" | ("bytes"|"str", maxlen, alphabet)
    split: name -> "each" | n (number of ranges)  -- partition of the path tree into jobs
    witnesses: concrete argument dicts that are executed natively on every run (they must
           satisfy the property; they validate stubs/oracles and provide samples)
    budget: CPU seconds per job (int, or {"quick": a, "thorough": b})
    """

    def deco(fn):
        fn.__vf__ = {
            "prop": prop,
            "dom": dom,
            "split": split or {},
            "witnesses": witnesses or [],
            "budget": budget,
            "bounds": bounds,
            "tiers": tuple(tiers),
            "thorough_dom": thorough_dom or {},
            "thorough_split": thorough_split,
            "per_path": per_path,
            "stubs": stubs or [],
            "encodes": encodes or [],
        }
        REGISTRY.setdefault(prop, {})[fn.__name__] = fn
        return fn

    return deco


def effective_dom(fn) -> Dict[str, Any]:
    meta = fn.__vf__
    dom = dict(meta["dom"])
    if MODE["tier"] == "thorough":
        dom.update(meta["thorough_dom"])
    return dom


def effective_split(fn) -> Dict[str, Any]:
    meta = fn.__vf__
    if MODE["tier"] == "thorough" and meta["thorough_split"] is not None:
        return meta["thorough_split"]
    return meta["split"]


def _in_alpha(seq, alphabet) -> bool:
    for ch in seq:
        hit = False
        for a in alphabet:
            if ch == a:
                hit = True
                break
        if not hit:
            return False
    return True


def DOM(fn, **kw) -> bool:
    """Precondition of a harness: declared domain, job partition, excluded known regions."""
    dom = effective_dom(fn)
    for name, spec in dom.items():
        v = kw[name]
        if spec == "bool":
            continue
        if isinstance(spec, tuple) and spec and spec[0] in ("bytes", "str"):
            if len(v) > spec[1]:
                return False
            if len(spec) > 3 and len(v) < spec[3]:
                return False
            if len(spec) > 2 and spec[2] is not None and not _in_alpha(v, spec[2]):
                return False
            continue
        lo, hi = spec
        if lo is not None and v < lo:
            return False
        if hi is not None and v > hi:
            return False
    for name, (lo, hi) in MODE["part"].items():
        v = kw[name]
        if v < lo or v > hi:
            return False
    for region in MODE["exclude"]:
        if eval(region, fn.__globals__, dict(kw)):
            return False
    return True


# ---------------------------------------------------------------------------- pinning


def conc(x, lo: int, hi: int) -> int:
    """Pin a symbolic int with lo <= x <= hi to a concrete value by binary search.

    Every comparison is a solver-decided fork; the result is a plain int, so code that
    must not see symbolic values (sealed libraries, event loops) can use it."""
    while lo < hi:
        mid = (lo + hi) // 2
        if x <= mid:
            hi = mid
        else:
            lo = mid + 1
    return lo


def concb(x) -> bool:
    if x:
        return True
    return False


def conc_bytes(b, maxlen: int) -> bytes:
    """Pin a symbolic bytes value (byte by byte) to a concrete one."""
    n = conc(len(b), 0, maxlen)
    out = []
    for i in range(n):
        out.append(conc(b[i], 0, 255))
    return bytes(out)


# ---------------------------------------------------------------------------- verdicts


def enter() -> None:
    if is_tracing():
        with NoTracing():
            STATS["entered"] += 1
    else:
        STATS["entered"] += 1


def _peek(v, solve: bool = True):
    """Current model value of a symbolic, without adding anything to the path tree."""
    if isinstance(v, (int, bool, str, bytes, float, type(None))) and type(v) in (
        int,
        bool,
        str,
        bytes,
        float,
        type(None),
    ):
        return v
    if isinstance(v, (list, tuple)) and type(v) in (list, tuple):
        return [_peek(x, solve) for x in v]
    var = getattr(v, "var", None)
    if var is not None and solve:
        try:
            import z3

            space = context_statespace()
            if space.solver.check() == z3.sat:
                m = space.solver.model()
                val = m.eval(var, model_completion=True)
                if z3.is_int_value(val):
                    return val.as_long()
                if z3.is_true(val):
                    return True
                if z3.is_false(val):
                    return False
                return str(val)
        except Exception as e:  # pragma: no cover
            return "<sym:%s>" % type(e).__name__
    return "<sym %s>" % type(v).__name__


def done(ok, **vec) -> bool:
    """Final assertion of a harness.  `vec` is the choice vector / inputs of this path."""
    if not is_tracing():
        STATS["reached"] += 1
        key = repr(sorted(vec.items()))
        STATS["vectors"].add(key)
        if len(STATS["samples"]) < 4:
            STATS["samples"].append(dict(vec))
        if not ok:
            STATS["last_fail"] = dict(vec)
        return bool(ok)
    with NoTracing():
        STATS["reached"] += 1
        first = len(STATS["samples"]) < 3
    if MODE["twin"]:
        return False
    if ok:
        with NoTracing():
            # one distinct vector per path: concrete parts by value, symbolic parts stand
            # for the whole region of this path (paths are disjoint by construction)
            pv = {k: _peek(v, first) for k, v in vec.items()}
            key = repr(sorted(pv.items()))
            if "<sym" in key:
                key += "#path%d" % STATS["reached"]
            if len(STATS["vectors"]) < 200000:
                STATS["vectors"].add(key)
            if first:
                STATS["samples"].append(pv)
        return True
    # failing path: pin the inputs so that the counterexample can be replayed natively
    real = {k: deep_realize(v) for k, v in vec.items()}
    with NoTracing():
        STATS["last_fail"] = real
    return False


def note(msg: str) -> None:
    with NoTracing():
        if len(STATS["notes"]) < 20:
            STATS["notes"].append(str(msg))


# ---------------------------------------------------------------------------- stubs


class RecordingLogger:
    """Stands in for hypercorn.logging.Logger; records every call."""

    def __init__(self, config=None) -> None:
        self.calls: List[tuple] = []

    async def access(self, request, response, request_time) -> None:
        self.calls.append(("access", request, response))

    async def critical(self, message, *a, **k) -> None:
        self.calls.append(("critical", message))

    async def error(self, message, *a, **k) -> None:
        self.calls.append(("error", message))

    async def warning(self, message, *a, **k) -> None:
        self.calls.append(("warning", message))

    async def info(self, message, *a, **k) -> None:
        self.calls.append(("info", message))

    async def debug(self, message, *a, **k) -> None:
        self.calls.append(("debug", message))

    async def exception(self, message, *a, **k) -> None:
        self.calls.append(("exception", message, sys.exc_info()[1]))

    async def log(self, level, message, *a, **k) -> None:
        self.calls.append(("log", message))

    def count(self, kind: str) -> int:
        return sum(1 for c in self.calls if c[0] == kind)


def run_coro(coro):
    """Drive a coroutine that never really parks (all awaits complete synchronously)."""
    try:
        coro.send(None)
    except StopIteration as e:
        return e.value
    coro.close()
    raise RuntimeError("coroutine parked")
