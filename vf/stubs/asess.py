"""Tier C session executor for the asyncio worker: the real hypercorn.asyncio.tcp_server.TCPServer
(+ worker_context, task_group, ProtocolWrapper ...) on the virtual loop."""
from __future__ import annotations

import asyncio
from typing import Any, Callable, List, Optional

import hypercorn.asyncio.tcp_server as atcp
import hypercorn.asyncio.worker_context as awc
from hypercorn.config import Config

from vf.stubs.b import make_config
from vf.stubs.vloop import FakeTransport, VLoop, make_stream_pair


class ASession:
    flavour = "asyncio"

    def __init__(self, app, config: Optional[Config] = None, alpn: Optional[str] = None, tls: bool = False, max_requests: Optional[int] = None,
                 state: Optional[dict] = None, loop: Optional[VLoop] = None, ctx=None) -> None:
        self.loop = loop or VLoop()
        self.config = config or make_config()
        self.ctx = ctx or awc.WorkerContext(max_requests)
        self.reader, self.writer, self.tr = make_stream_pair(self.loop, alpn=alpn, tls=tls)
        self.server = atcp.TCPServer(app, self.loop, self.config, self.ctx, state if state is not None else {}, self.reader, self.writer)
        self.task = self.loop.create_task(self.server.run())
        self.done_at: Optional[float] = None
        self.task.add_done_callback(lambda t: setattr(self, "done_at", self.loop.time()))
        self.loop.settle()

    # -- client actions (each runs the loop to quiescence at the current instant)
    def feed(self, data: bytes) -> None:
        if data:
            self.tr.peer_send(data)
        self.loop.settle()

    def eof(self) -> None:
        self.tr.peer_eof()
        self.loop.settle()

    def reset(self) -> None:
        self.tr.peer_reset()
        self.loop.settle()

    def sleep(self, dt: float) -> None:
        self.loop.advance(dt)

    def take(self) -> bytes:
        return self.tr.out.take()

    def terminate(self) -> None:
        async def go():
            await self.ctx.terminated.set()

        self.loop.create_task(go())
        self.loop.settle()

    # -- observations
    @property
    def now(self) -> float:
        return self.loop.time()

    @property
    def closed_at(self) -> Optional[float]:
        return self.tr.closed_at

    @property
    def handler_done(self) -> bool:
        return self.task.done()

    def handler_error(self):
        if self.task.done() and not self.task.cancelled():
            return self.task.exception()
        return None

    def alive_tasks(self) -> List[str]:
        return sorted(t.get_coro().__qualname__ for t in asyncio.all_tasks(self.loop) if not t.done())

    def make_sleep(self):
        return asyncio.sleep

    def make_event(self):
        return asyncio.Event()
