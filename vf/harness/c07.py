"""C07 idle connections time out, busy ones do not, dead ones are released."""
from __future__ import annotations

from hypercorn.events import Updated
from hypercorn.protocol.events import StreamClosed
from hypercorn.protocol.h2 import H2Protocol
from hypercorn.typing import ConnectionState

from vf.rt import DOM, MODE, conc, done, enter, harness
from vf.session import all_out, run_session
from vf.stubs.b import make_config
from vf.stubs.clients import H2Client, WSClient, h1_parse, h1_request, split_h1_head, ws_h1_handshake
from vf.stubs.sched import Sched, TaskGroup, WorkerContext

QUICK = MODE["tier"] != "thorough"
HOSTH = (b"Host", b"example.com")
EPS = 1e-6


# ------------------------------------------------------------------ H2 idle computation, one step


class _S:
    def __init__(self, idle: bool) -> None:
        self.idle = idle
        self.handled = []

    async def handle(self, ev) -> None:
        self.handled.append(ev)


class _RecConn:
    def __init__(self) -> None:
        self.closed = 0

    def close_connection(self) -> None:
        self.closed += 1

    def data_to_send(self) -> bytes:
        return b""


@harness(
    "C07",
    dom={"n": (1, 3), "i0": "bool", "i1": "bool", "i2": "bool", "terminated": "bool", "which": (0, 2)},
    witnesses=[{"n": 2, "i0": True, "i1": False, "i2": False, "terminated": False, "which": 0}, {"n": 1, "i0": False, "i1": False, "i2": False, "terminated": True, "which": 0}],
    budget=60,
    bounds="H2Protocol.stream_send(StreamClosed) with 1..3 streams in the table, each idle or not, worker terminating or not, any of them closing",
    encodes=["hypercorn/protocol/h2.py::H2Protocol.stream_send", "hypercorn/protocol/h2.py::H2Protocol._close_stream", "hypercorn/protocol/h2.py::H2Protocol.idle"],
    stubs=["streams replaced by two-field fakes, h2 connection by a recorder"],
)
def h2_idle_step(n: int, i0: bool, i1: bool, i2: bool, terminated: bool, which: int) -> bool:
    """
    pre: DOM(h2_idle_step, n=n, i0=i0, i1=i1, i2=i2, terminated=terminated, which=which)
    post: _
    """
    enter()
    n = conc(n, 1, 3)
    which = conc(which, 0, 2)
    if which >= n:
        return done(True, skipped="no such stream")
    idles = [True if x else False for x in (i0, i1, i2)][:n]
    terminated = True if terminated else False
    s = Sched()
    ctx = WorkerContext(s)
    sent = []

    async def send(ev):
        sent.append(ev)

    p = H2Protocol(None, make_config(), ctx, TaskGroup(s, None), ConnectionState({}), False, None, None, send)
    rec = _RecConn()
    p.connection = rec
    for k in range(n):
        p.streams[2 * k + 1] = _S(idles[k])

    async def go():
        if terminated:
            await ctx.terminated.set()
        await p.stream_send(StreamClosed(stream_id=2 * which + 1))

    t = s.spawn(go(), "go")
    s.run()
    rest = [idles[k] for k in range(n) if k != which]
    want_idle = all(rest)
    ok = t.done and t.exc is None and sent == [Updated(idle=want_idle)]
    ok = ok and rec.closed == (1 if (want_idle and terminated) else 0)
    ok = ok and (2 * which + 1) not in p.streams
    return done(ok, idles=idles, terminated=terminated, which=which)


# ------------------------------------------------------------------ HTTP/1 histories on virtual time

PHASES = ["pause only", "first half of a request head", "request (answered at once)", "request (answered after T+1)", "malformed head",
          "request for an unknown host (server-generated 404)"]
TS = [2.0, 5.0]


def _app_factory(delays):
    """Every request i is answered after delays[i] virtual seconds."""

    def factory(env):
        count = {"n": 0}
        log = []

        async def app(scope, receive, send, sync_spawn=None, call_soon=None):
            i = count["n"]
            count["n"] += 1
            log.append(("start", i, env.now()))
            while True:
                m = await receive()
                if m["type"] != "http.request" or not m.get("more_body"):
                    break
            if m["type"] == "http.request":
                d = delays[i] if i < len(delays) else 0
                if d:
                    await env.sleep(d)
                await send({"type": "http.response.start", "status": 200, "headers": [(b"content-length", b"2")]})
                await send({"type": "http.response.body", "body": b"ok", "more_body": False})
                log.append(("answered", i, env.now()))
            log.append(("done", i, env.now()))

        app.log = log
        factory.app = app
        return app

    return factory


REQ = h1_request("GET", b"/r", [HOSTH])
BADHOST = h1_request("GET", b"/r", [(b"Host", b"unknown.example")])


def _simulate(T, phases, pauses):
    """Reference: (expected close time, actions, app delays).  See DESIGN.md C07."""
    now = 0.0
    idle_since = 0.0
    busy_until = None
    queue = []  # delays of requests not yet started (pipelined behind a running one)
    half_sent = False
    actions = []
    delays = []
    closed = None
    never = False  # the connection is in a state the server never leaves by itself

    def advance(dt):
        nonlocal now, idle_since, busy_until, closed
        end = now + dt
        while closed is None:
            if busy_until is not None and busy_until <= end + EPS:
                now = busy_until
                if queue:
                    busy_until = now + queue.pop(0)
                else:
                    busy_until = None
                    idle_since = now
                continue
            if busy_until is None and idle_since is not None and idle_since + T <= end + EPS:
                closed = idle_since + T
                break
            break
        now = end

    for kind, pause in zip(phases, pauses):
        if pause:
            actions.append(("sleep", pause))
            advance(pause)
        if closed is not None:
            break
        if kind == 0:
            continue
        if kind == 1:
            if not half_sent and busy_until is None:
                actions.append(("feed", REQ[:20]))
                half_sent = True
            continue
        if kind in (2, 3):
            d = 0.0 if kind == 2 else T + 1
            data = REQ[20:] if half_sent else REQ
            half_sent = False
            actions.append(("feed", data))
            delays.append(d)
            if busy_until is not None:
                queue.append(d)
            else:
                idle_since = None
                busy_until = now + d
                if d == 0:
                    busy_until = None
                    idle_since = now
            continue
        if kind == 4:
            actions.append(("feed", b"\x00\x01 garbage\r\n\r\n"))
            if busy_until is None:
                closed = now  # 400 (if nothing was sent yet) and immediate close
            else:
                return None  # garbage behind a running request: decided by C04/C06
            break
        if kind == 5:
            if half_sent or busy_until is not None:
                return None
            actions.append(("feed", BADHOST))
            # the 404 announces `connection: close`; the connection has no request in progress afterwards
            idle_since = now
            continue
    if closed is None:
        actions.append(("sleep", 3 * T + 2))
        advance(3 * T + 2)
    return closed, actions, delays


@harness(
    "C07",
    dom={"ti": (0, 1), "k": (1, 3), "h0": (0, 5), "h1": (0, 5), "h2": (0, 5), "p0": (0, 2), "p1": (0, 2), "p2": (0, 2), "flavour": (0, 1)},
    split={"h0": "each", "flavour": "each"},
    thorough_split={"h0": "each", "flavour": "each", "h1": "each"},
    witnesses=[{"ti": 1, "k": 2, "h0": 2, "h1": 0, "h2": 0, "p0": 1, "p1": 2, "p2": 0, "flavour": 0},
               {"ti": 1, "k": 2, "h0": 1, "h1": 3, "h2": 2, "p0": 1, "p1": 1, "p2": 1, "flavour": 1}],
    budget={"quick": 200, "thorough": 2400},
    per_path=120,
    bounds="keep_alive_timeout T in {2,5}; histories of 1..3 phases (quick: 1..2 phases, T=5) from {pause, half a request head, request answered at once, request answered after T+1, malformed head, request for an unknown host} with a pause in {0, T-1, T+1} before each phase and 3T+2 at the end; real TCPServer of both workers on virtual time",
    encodes=["hypercorn/asyncio/tcp_server.py::TCPServer.run", "hypercorn/asyncio/tcp_server.py::TCPServer._idle_timeout", "hypercorn/asyncio/tcp_server.py::TCPServer.protocol_send",
             "hypercorn/trio/tcp_server.py::TCPServer.run", "hypercorn/trio/tcp_server.py::TCPServer._idle_timeout", "hypercorn/asyncio/worker_context.py::AsyncioSingleTask.restart",
             "hypercorn/trio/worker_context.py::TrioSingleTask.restart", "hypercorn/protocol/h11.py::H11Protocol._maybe_recycle"],
    stubs=["tier C: real asyncio loop machinery on a virtual clock with an in-memory transport / trio.run with a manually stepped MockClock and an in-memory stream", "durations are classes relative to T, not arbitrary reals"],
)
def h1_idle_history(ti: int, k: int, h0: int, h1: int, h2: int, p0: int, p1: int, p2: int, flavour: int) -> bool:
    """
    pre: DOM(h1_idle_history, ti=ti, k=k, h0=h0, h1=h1, h2=h2, p0=p0, p1=p1, p2=p2, flavour=flavour)
    post: _
    """
    enter()
    ti = conc(ti, 0, 1)
    k = conc(k, 1, 3)
    if QUICK and (k == 3 or ti == 0):
        return done(True, skipped="quick tier: histories of at most two phases, T=5")
    T = TS[ti]
    flavour = "asyncio" if conc(flavour, 0, 1) == 0 else "trio"
    hs = (h0, h1, h2)
    ps = (p0, p1, p2)
    phases = [conc(hs[i], 0, 5) for i in range(k)]
    pauses = [[0.0, T - 1, T + 1][conc(ps[i], 0, 2)] for i in range(k)]
    if QUICK and k == 3 and 0.0 in pauses[1:]:
        return done(True, skipped="quick tier: three-phase histories use the T-1 / T+1 gaps after the first phase")
    ref = _simulate(T, phases, pauses)
    if ref is None:
        return done(True, skipped="history outside this harness (decided by C04/C06)")
    want_close, actions, delays = ref
    factory = _app_factory(delays)
    cfg = make_config(keep_alive_timeout=T, server_names=["example.com"] if 5 in phases else [])
    obs = run_session(flavour, factory, cfg, actions)
    why = ""
    got = obs["closed_at"]
    if obs["handler_error"] is not None:
        why = "connection handler raised %r" % (obs["handler_error"],)
    elif want_close is None:
        if got is not None:
            why = f"server closed at t={got} although the connection was never idle for T={T}"
    elif got is None:
        why = f"connection still open at the end; expected close at t={want_close} (T={T})"
    elif abs(got - want_close) > 1e-3:
        why = f"server closed at t={got}, expected t={want_close} (T={T})"
    elif not obs["handler_done"]:
        why = "transport closed but the connection handler is still running"
    if not why:
        n_ok = sum(1 for e in factory.app.log if e[0] == "answered")
        resps, err, _, _ = h1_parse(all_out(obs), [("GET", b"/r")] * max(1, len(delays)))
        complete = [r for r in resps if r.complete and r.status == 200]
        if len(complete) != n_ok:
            why = f"{n_ok} applications answered but the client parsed {len(complete)} complete 200 responses"
    return done(why == "", T=T, phases=[PHASES[p] for p in phases], pauses=pauses, flavour=flavour, why=why)


# ------------------------------------------------------------------ peer loss

LOSS = ["client EOF", "client reset", "write failure"]
POINTS = ["idle, before any request", "in the middle of a request head", "while a request is being served", "while a second pipelined request is parked behind the first",
          "idle, after a complete exchange"]


@harness(
    "C07",
    dom={"loss": (0, 2), "point": (0, 4), "flavour": (0, 1), "polls": "bool"},
    split={"point": "each", "flavour": "each"},
    witnesses=[{"loss": 0, "point": 0, "flavour": 0, "polls": True}, {"loss": 1, "point": 2, "flavour": 1, "polls": False}],
    budget=120,
    per_path=120,
    bounds="peer loss {EOF, reset, failure of the next write} at 5 points of an HTTP/1.1 connection (idle, mid-head, request in progress, pipelined request parked, idle after an exchange) x both workers x application that waits for the disconnect or just finishes after its 1.5 s of work; T = 5",
    encodes=["hypercorn/asyncio/tcp_server.py::TCPServer._read_data", "hypercorn/asyncio/tcp_server.py::TCPServer._close", "hypercorn/trio/tcp_server.py::TCPServer._read_data",
             "hypercorn/trio/tcp_server.py::TCPServer._close", "hypercorn/protocol/h11.py::H11Protocol.handle", "hypercorn/protocol/h11.py::H11Protocol._handle_events"],
    stubs=["tier C runtime"],
)
def h1_peer_loss(loss: int, point: int, flavour: int, polls: bool) -> bool:
    """
    pre: DOM(h1_peer_loss, loss=loss, point=point, flavour=flavour, polls=polls)
    post: _
    """
    enter()
    loss = conc(loss, 0, 2)
    point = conc(point, 0, 4)
    polls = True if polls else False
    flavour = "asyncio" if conc(flavour, 0, 1) == 0 else "trio"
    T = 5.0
    WORK = 1.5

    def factory(env):
        log = []

        async def app(scope, receive, send, sync_spawn=None, call_soon=None):
            log.append(("start", env.now()))
            while True:
                m = await receive()
                if m["type"] != "http.request" or not m.get("more_body"):
                    break
            if m["type"] == "http.request":
                if polls:
                    # a well-behaved long-running app: works until told that the client has gone
                    m = await receive()
                    log.append(("woken", m["type"], env.now()))
                else:
                    await env.sleep(WORK)
                await send({"type": "http.response.start", "status": 200, "headers": [(b"content-length", b"2")]})
                await send({"type": "http.response.body", "body": b"ok", "more_body": False})
            log.append(("done", env.now()))

        factory.log = log
        return app

    lose = [("eof",), ("reset",), ("write_fail_at", 0)][loss]
    acts = [("sleep", 1.0)]
    in_progress = point in (2, 3)
    if point == 1:
        acts.append(("feed", REQ[:20]))
    elif point == 2:
        acts.append(("feed", REQ))
    elif point == 3:
        acts.append(("feed", REQ + REQ))
    elif point == 4:
        if polls:
            return done(True, skipped="the polling application only finishes on disconnect")
        acts += [("feed", REQ), ("sleep", WORK + 0.5)]
    acts.append(("sleep", 0.25))
    t_loss = sum(a[1] for a in acts if a[0] == "sleep")
    acts.append(lose)
    if loss == 2:
        if not in_progress:
            return done(True, skipped="a write failure needs something to write")
        if polls:
            return done(True, skipped="the polling application writes only after the disconnect")
    acts.append(("sleep", 0.01))
    acts.append(("sleep", T * 3))
    obs = run_session(flavour, factory, make_config(keep_alive_timeout=T), acts)
    # when must everything be over?  as soon as the peer is lost and every started application has returned
    done_times = [e[-1] for e in factory.log if e[0] == "done"]
    started = sum(1 for e in factory.log if e[0] == "start")
    t_free = max([t_loss] + done_times)
    if loss == 2:
        t_free = max(t_free, 1.0 + WORK)  # the failure is only noticed at the first write
    why = ""
    if obs["handler_error"] is not None:
        why = "connection handler raised %r" % (obs["handler_error"],)
    elif len(done_times) != started:
        why = f"{started} applications started but only {len(done_times)} returned"
    elif obs["closed_at"] is None:
        why = "transport never closed after the peer was lost"
    elif not obs["handler_done"]:
        why = "connection handler still running at the end (a task outlived the connection)"
    elif obs["closed_at"] > t_free + 0.1:
        why = f"transport closed at t={obs['closed_at']}, but the peer was lost at t={t_loss} and the applications were free at t={t_free}"
    elif obs.get("handler_done_at") is not None and obs["handler_done_at"] > t_free + 0.1:
        why = f"handler finished only at t={obs['handler_done_at']} (peer lost at t={t_loss}, applications free at t={t_free})"
    return done(why == "", loss=LOSS[loss], point=POINTS[point], flavour=flavour, polls=polls, why=why)


# ------------------------------------------------------------------ HTTP/2 and WebSocket on virtual time


@harness(
    "C07",
    dom={"kind": (0, 6), "ti": (0, 1), "flavour": (0, 1), "pc": (0, 2)},
    split={"kind": "each", "flavour": "each"},
    witnesses=[{"kind": 0, "ti": 0, "flavour": 0, "pc": 1}, {"kind": 2, "ti": 1, "flavour": 1, "pc": 2}, {"kind": 3, "ti": 0, "flavour": 0, "pc": 0}],
    budget=120,
    per_path=120,
    bounds="HTTP/2 connection (ALPN) without streams / with one stream answered after T+1 / WebSocket session held open for 3T / cleartext prior-knowledge HTTP/2 without streams / with a slow request in the same flight as the preface / one stream that the client resets after 0.5 s / a request the server refuses without opening a stream: T in {2,5}, gap before the traffic in {0, T-1, T+1}; both workers",
    encodes=["hypercorn/protocol/h2.py::H2Protocol.stream_send", "hypercorn/protocol/h2.py::H2Protocol._handle_events", "hypercorn/protocol/ws_stream.py::WSStream.idle",
             "hypercorn/asyncio/tcp_server.py::TCPServer._idle_timeout", "hypercorn/trio/tcp_server.py::TCPServer._idle_timeout"],
    stubs=["tier C runtime", "independent h2 / wsproto clients"],
)
def h2_ws_idle(kind: int, ti: int, flavour: int, pc: int) -> bool:
    """
    pre: DOM(h2_ws_idle, kind=kind, ti=ti, flavour=flavour, pc=pc)
    post: _
    """
    enter()
    kind = conc(kind, 0, 6)
    T = TS[conc(ti, 0, 1)]
    flavour = "asyncio" if conc(flavour, 0, 1) == 0 else "trio"
    gap = [0.0, T - 1, T + 1][conc(pc, 0, 2)]

    def factory(env):
        async def app(scope, receive, send, sync_spawn=None, call_soon=None):
            if scope["type"] == "websocket":
                await receive()
                await send({"type": "websocket.accept"})
                while True:
                    m = await receive()
                    if m["type"] == "websocket.disconnect":
                        return
            while True:
                m = await receive()
                if m["type"] != "http.request" or not m.get("more_body"):
                    break
            await env.sleep(T + 1)
            await send({"type": "http.response.start", "status": 200, "headers": []})
            await send({"type": "http.response.body", "body": b"ok", "more_body": False})

        return app

    acts = []
    want = None
    if kind == 6:
        # a request the server refuses by itself (non-ASCII :path -> RST_STREAM): no stream is ever open, the
        # connection has been idle since it was opened
        from vf.harness.c04 import _raw_headers, _std

        c = H2Client()
        acts.append(("feed", c.take()))
        if gap:
            acts.append(("sleep", gap))
        if gap < T:
            acts.append(("feed", _raw_headers(c, 1, _std(path=b"/caf\xc3\xa9"), True)))
        want = T
        acts.append(("sleep", 3 * T + 3))
        alpn = "h2"
    elif kind == 5:
        # the client gives up on its only stream half a second after opening it
        c = H2Client()
        acts.append(("feed", c.take()))
        if gap:
            acts.append(("sleep", gap))
        if gap >= T:
            want = T
        else:
            c.request(1, b"POST", b"/s", end_stream=False)
            acts.append(("feed", c.take()))
            acts.append(("sleep", 0.5))
            c.reset(1)
            acts.append(("feed", c.take()))
            want = gap + 0.5 + T
        acts.append(("sleep", 3 * T + 3))
        alpn = "h2"
    elif kind == 4:
        # cleartext prior knowledge: preface, SETTINGS and the first request arrive together
        c = H2Client()
        c.request(1, b"GET", b"/s", end_stream=True)
        if gap:
            acts.append(("sleep", gap))
        acts.append(("feed", c.take()))
        want = T if gap >= T else gap + (T + 1) + T
        acts.append(("sleep", 3 * T + 3))
        alpn = None
    elif kind in (0, 1, 3):
        c = H2Client()
        acts.append(("feed", c.take()))
        if gap:
            acts.append(("sleep", gap))
        if gap >= T:
            want = T
        elif kind in (0, 3):
            want = T  # preface only (sent at t=0): never a stream, idle since the connection was opened / switched
        else:
            c.request(1, b"GET", b"/s", end_stream=True)
            acts.append(("feed", c.take()))
            want = gap + (T + 1) + T  # busy until the response at gap+T+1, idle afterwards
        acts.append(("sleep", 3 * T + 3))
        alpn = "h2" if kind != 3 else None  # kind 3: cleartext prior-knowledge preface
    else:
        if gap:
            acts.append(("sleep", gap))
        if gap >= T:
            want = T
        else:
            acts.append(("feed", ws_h1_handshake()))
            acts.append(("sleep", 3 * T))
            ws = WSClient()
            acts.append(("feed", ws.send_close(1000)))
            want = gap + 3 * T  # closed by the close handshake, not by the timer
            acts.append(("sleep", 1.0))
        alpn = None
    obs = run_session(flavour, factory, make_config(keep_alive_timeout=T), acts, alpn=alpn)
    got = obs["closed_at"]
    why = ""
    if obs["handler_error"] is not None:
        why = "connection handler raised %r" % (obs["handler_error"],)
    elif got is None:
        why = f"connection still open; expected close at t={want}"
    elif abs(got - want) > 1e-3:
        why = f"server closed at t={got}, expected t={want} (T={T}, gap={gap})"
    elif not obs["handler_done"]:
        why = "transport closed but the handler is still running"
    return done(why == "", kind=["h2 no stream", "h2 one slow stream", "websocket", "cleartext prior-knowledge h2, no stream", "cleartext prior-knowledge h2, slow request in the first flight", "h2 stream reset by the client", "h2 request refused by the server (non-ASCII path)"][kind], T=T, gap=gap, flavour=flavour, why=why)


# ------------------------------------------------------------------ server-side close with a pipelined request parked

CLOSERS = ["keep_alive_max_requests reached", "application announces Connection: close", "worker is terminating"]


@harness(
    "C07",
    dom={"cause": (0, 2), "flavour": (0, 1), "n": (2, 3)},
    witnesses=[{"cause": 0, "flavour": 0, "n": 2}, {"cause": 1, "flavour": 1, "n": 3}],
    budget=120,
    per_path=120,
    bounds="2..3 pipelined HTTP/1.1 requests in one read where the first response ends the connection (request maximum reached, application sends Connection: close, worker terminating) x both workers: the handler must finish and the transport close as soon as the first application has returned",
    encodes=["hypercorn/protocol/h11.py::H11Protocol._maybe_recycle", "hypercorn/protocol/h11.py::H11Protocol._handle_events", "hypercorn/asyncio/tcp_server.py::TCPServer.run", "hypercorn/trio/tcp_server.py::TCPServer.run"],
    stubs=["tier C runtime"],
)
def h1_close_with_parked_request(cause: int, flavour: int, n: int) -> bool:
    """
    pre: DOM(h1_close_with_parked_request, cause=cause, flavour=flavour, n=n)
    post: _
    """
    enter()
    cause = conc(cause, 0, 2)
    n = conc(n, 2, 3)
    flavour = "asyncio" if conc(flavour, 0, 1) == 0 else "trio"

    def factory(env):
        log = []

        async def app(scope, receive, send, sync_spawn=None, call_soon=None):
            log.append(("start", scope["raw_path"], env.now()))
            while True:
                m = await receive()
                if m["type"] != "http.request" or not m.get("more_body"):
                    break
            await env.sleep(1.0)
            headers = [(b"content-length", b"2")]
            if cause == 1:
                headers.append((b"connection", b"close"))
            await send({"type": "http.response.start", "status": 200, "headers": headers})
            await send({"type": "http.response.body", "body": b"ok", "more_body": False})
            log.append(("done", scope["raw_path"], env.now()))

        factory.log = log
        return app

    data = b"".join(h1_request("GET", b"/r%d" % i, [HOSTH]) for i in range(n))
    acts = [("feed", data), ("sleep", 0.5)]
    if cause == 2:
        acts.append(("terminate",))
    acts.append(("sleep", 20.0))
    cfg = make_config(keep_alive_timeout=5.0, keep_alive_max_requests=1 if cause == 0 else 1000)
    obs = run_session(flavour, factory, cfg, acts)
    started = [e for e in factory.log if e[0] == "start"]
    why = ""
    if obs["handler_error"] is not None:
        why = "connection handler raised %r" % (obs["handler_error"],)
    elif len(started) != 1:
        why = f"{len(started)} requests were started; the first response ends the connection"
    elif obs["closed_at"] is None or obs["closed_at"] > 1.0 + 0.1:
        why = f"transport closed at t={obs['closed_at']}; the only application returned at t=1.0"
    elif not obs["handler_done"] or obs.get("handler_done_at") is None or obs["handler_done_at"] > 1.0 + 0.1:
        why = f"connection handler still running (done_at={obs.get('handler_done_at')}) after the server closed the connection at t={obs['closed_at']}"
    else:
        resps, err, _, _ = h1_parse(all_out(obs), [("GET", b"/r0")])
        if err or not resps or not resps[0].complete or resps[0].status != 200:
            why = f"first response not delivered: {resps!r} {err}"
    return done(why == "", cause=CLOSERS[cause], flavour=flavour, n=n, why=why)
