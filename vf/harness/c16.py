"""C16 protocol behaviour does not depend on the worker class."""
from __future__ import annotations

from vf.rt import DOM, MODE, conc, done, enter, harness
from vf.session import all_out, run_session
from vf.stubs.b import make_config
from vf.stubs.clients import H2Client, WSClient, h1_request, ws_h1_handshake

QUICK = MODE["tier"] != "thorough"
HOSTH = (b"Host", b"example.com")


def _factory():
    def factory(env):
        log = []
        count = {"n": 0}

        async def app(scope, receive, send, sync_spawn=None, call_soon=None):
            i = count["n"]
            count["n"] += 1
            entry = {"type": scope["type"], "path": scope["raw_path"], "version": scope["http_version"], "msgs": []}
            log.append(entry)
            if scope["type"] == "websocket":
                m = await receive()
                entry["msgs"].append(m["type"])
                await send({"type": "websocket.accept"})
                if scope["raw_path"] == b"/lazy":
                    await env.sleep(1.0)  # does not read for a while: the server has to hold back what the client sends
                while True:
                    m = await receive()
                    entry["msgs"].append((m["type"], m.get("text"), m.get("bytes"), m.get("code")))
                    if m["type"] == "websocket.disconnect":
                        return
                    await send({"type": "websocket.send", "text": "echo:" + (m.get("text") or "")})
            body = b""
            while True:
                m = await receive()
                entry["msgs"].append((m["type"], m.get("body"), m.get("more_body")))
                if m["type"] != "http.request":
                    return
                body += m["body"]
                if not m.get("more_body"):
                    break
            if scope["raw_path"] == b"/slow":
                await env.sleep(1.0)
            if scope["raw_path"] == b"/slower":
                await env.sleep(2.5)
            payload = b"echo:" + scope["raw_path"] + b":" + body
            await send({"type": "http.response.start", "status": 200, "headers": [(b"content-length", str(len(payload)).encode())]})
            await send({"type": "http.response.body", "body": payload, "more_body": False})
            m = await receive()
            entry["msgs"].append((m["type"],))

        factory.log = log
        return app

    return factory


def _h2_flight():
    c = H2Client()
    c.request(1, b"POST", b"/one", end_stream=False)
    c.data(1, b"abc", end_stream=True)
    c.request(3, b"GET", b"/slow", end_stream=True)
    return c.take()


def _ws_flight():
    ws = WSClient()
    # the close goes in its own flight: a close frame racing with the application's reply is a
    # genuine scheduling race (the reply may or may not get out), not a worker dependency
    return ws_h1_handshake(), ws.send_text("hi") + ws.send_bytes(b"\x00\x01"), ws.send_close(1001)


FAMILIES = ["HTTP/1.1 pipeline of three requests", "HTTP/1.1 chunked POST then EOF (half-close)", "HTTP/2 two streams", "WebSocket session", "HTTP/1 garbage after a request",
            "HTTP/1.0 request", "slow request then reset", "HTTP/2 request and PING while the client is not reading for 2 s, read_timeout 1 s",
            "HTTP/1.1 pipeline behind a request that takes 2.5 s, read_timeout 1 s",
            "WebSocket: 14 messages and a ping while the application does not read for 1 s (more than max_app_queue_size)"]


def _data(fi: int):
    if fi == 0:
        return h1_request("GET", b"/a", [HOSTH]) + h1_request("POST", b"/slow", [HOSTH], [b"xyz"], "content-length") + h1_request("GET", b"/c", [HOSTH, (b"Connection", b"close")])
    if fi == 1:
        return h1_request("POST", b"/up", [HOSTH], [b"ab", b"cde", b"f"], "chunked")
    if fi == 2:
        return _h2_flight()
    if fi == 3:
        return _ws_flight()[0]
    if fi == 4:
        return h1_request("GET", b"/ok", [HOSTH]) + b"\x00GARBAGE /x\r\n\r\n"
    if fi == 5:
        return h1_request("GET", b"/ten", [HOSTH], version=b"1.0")
    if fi == 7:
        c = H2Client()
        c.request(1, b"GET", b"/slow", end_stream=True)  # answered after 1 s: the write parked first is the reader's own (SETTINGS/PING acknowledgement)
        c.conn.ping(b"12345678")
        return c.take()
    if fi == 9:
        return ws_h1_handshake(path=b"/lazy")
    if fi == 8:
        return h1_request("GET", b"/a", [HOSTH]) + h1_request("GET", b"/slower", [HOSTH]) + h1_request("GET", b"/c", [HOSTH]) + h1_request("GET", b"/d", [HOSTH, (b"Connection", b"close")])
    return h1_request("GET", b"/slow", [HOSTH])


def _config(fi: int):
    if fi in (7, 8):
        return make_config(keep_alive_timeout=5.0, read_timeout=1)
    return make_config(keep_alive_timeout=5.0)


def _run(fi: int, flavour: str, factory, acts):
    if fi == 7:
        # every choice is pinned; the trio run with a parked write does not terminate under the tracer
        # (same limit as C08's back-pressure sessions), so this family is executed un-traced
        from vf.rt import NoTracing

        with NoTracing():
            return run_session(flavour, factory, _config(fi), acts, alpn="h2")
    return run_session(flavour, factory, _config(fi), acts, alpn="h2" if fi == 2 else None)


_LEN = [len(_data(i)) for i in range(len(FAMILIES))]
STRIDE = 12 if QUICK else 1


def _ws_frames(data: bytes):
    """Server-to-client WebSocket frames (unmasked) of one snapshot, as a sorted list: frames written by different
    tasks within the same instant (a pong by the reader, echoes by the application) have no specified order."""
    frames, i = [], 0
    while i + 2 <= len(data):
        n = data[i + 1] & 0x7F
        hdr = 2
        if n == 126:
            n, hdr = int.from_bytes(data[i + 2:i + 4], "big"), 4
        elif n == 127:
            n, hdr = int.from_bytes(data[i + 2:i + 10], "big"), 10
        frames.append(bytes(data[i:i + hdr + n]))
        i += hdr + n
    return sorted(frames)


def _norm(obs, factory, ws_unordered: bool = False):
    if ws_unordered:
        for s in obs["snaps"]:
            if s["out"] and not s["out"].startswith(b"HTTP/"):
                s["out"] = _ws_frames(s["out"])
    snaps = [(s["label"] if not isinstance(s["label"], tuple) else tuple(s["label"][:2]), round(s["t"], 6), s["out"], None if s["closed_at"] is None else round(s["closed_at"], 6), s["handler_done"])
             for s in obs["snaps"]]
    return {
        "app": factory.log,
        "snaps": snaps,
        "closed_at": None if obs["closed_at"] is None else round(obs["closed_at"], 6),
        "handler_done": obs["handler_done"],
        "handler_error": repr(obs["handler_error"]) if obs["handler_error"] is not None else None,
    }


@harness(
    "C16",
    dom={"fi": (0, len(FAMILIES) - 1), "cut": (0, max(_LEN) // STRIDE + 1), "end": (0, 4)},
    split={"fi": "each", "cut": 8},
    thorough_split={"fi": "each", "cut": 16},
    witnesses=[{"fi": 0, "cut": 2, "end": 0}, {"fi": 2, "cut": 3, "end": 1}, {"fi": 3, "cut": 2, "end": 2}],
    budget={"quick": 300, "thorough": 1800},
    per_path=240,
    bounds="10 session families (HTTP/1.1 pipeline incl. a slow request and Connection: close, chunked upload + half-close, HTTP/2 with two streams, WebSocket session, garbage after a request, HTTP/1.0, slow request then reset, HTTP/2 request + PING against a client that stops reading for longer than read_timeout, HTTP/1.1 pipeline parked behind a request that takes longer than read_timeout, a WebSocket client sending more messages than the application queue holds while the application is not reading) x every two-way split of the client's first flight (quick: every 12th offset) x ending {keep waiting 7 s, EOF after 0.5 s, reset after 0.5 s, half-close instead of the rest of the flight, reset instead of the rest}; identical actions on both workers",
    encodes=["hypercorn/asyncio/tcp_server.py::TCPServer.run", "hypercorn/trio/tcp_server.py::TCPServer.run", "hypercorn/asyncio/tcp_server.py::TCPServer.protocol_send", "hypercorn/trio/tcp_server.py::TCPServer.protocol_send",
             "hypercorn/asyncio/task_group.py::TaskGroup.spawn_app", "hypercorn/trio/task_group.py::TaskGroup.spawn_app", "hypercorn/asyncio/worker_context.py::EventWrapper.wait", "hypercorn/trio/worker_context.py::EventWrapper.wait"],
    stubs=["tier C runtimes (virtual asyncio loop / trio MockClock)", "wall clock pinned so that the date header is identical"],
)
def worker_differential(fi: int, cut: int, end: int) -> bool:
    """
    pre: DOM(worker_differential, fi=fi, cut=cut, end=end)
    post: _
    """
    enter()
    fi = conc(fi, 0, len(FAMILIES) - 1)
    cut = conc(cut, 0, max(_LEN) // STRIDE + 1) * STRIDE + (fi % STRIDE)
    end = conc(end, 0, 4)
    data = _data(fi)
    if cut > len(data):
        return done(True, skipped="cut beyond the first flight")
    acts = []
    if fi == 7:
        acts.append(("pause",))
    if cut:
        acts.append(("feed", data[:cut]))
        acts.append(("sleep", 0.25))
    if end >= 3 and fi == 7:
        return done(True, skipped="a client that stops reading and never reads again: how long close() lingers on unsent data is the transport's business (asyncio waits for the flush, trio closes the socket)")
    if end >= 3:
        # the client gives up in the middle of its first flight: half-close (3) or reset (4) instead of the rest
        acts.append(("eof",) if end == 3 else ("reset",))
        acts.append(("sleep", 7.0))
        results = {}
        for flavour in ("asyncio", "trio"):
            factory = _factory()
            obs = _run(fi, flavour, factory, acts)
            results[flavour] = _norm(obs, factory, ws_unordered=fi == 9)
        a, t = results["asyncio"], results["trio"]
        why = ""
        for key in ("app", "closed_at", "handler_done", "handler_error", "snaps"):
            if a[key] != t[key]:
                why = f"{key} differs: asyncio={a[key]!r} trio={t[key]!r}"[:1500]
                break
        return done(why == "", family=FAMILIES[fi], cut=cut, end=["wait", "EOF", "reset", "truncated + EOF", "truncated + reset"][end], why=why)
    if cut < len(data):
        acts.append(("feed", data[cut:]))
    if fi == 3:
        acts.append(("sleep", 0.1))
        acts.append(("feed", _ws_flight()[1]))
        acts.append(("sleep", 0.1))
        acts.append(("feed", _ws_flight()[2]))
    if fi == 9:
        ws = WSClient()
        acts.append(("sleep", 0.1))
        acts.append(("feed", b"".join(ws.send_text("m%02d" % i) for i in range(14)) + ws.send_ping(b"are-you-there")))
        acts.append(("sleep", 0.5))
        acts.append(("sleep", 1.0))
        acts.append(("feed", ws.send_close(1000)))
    if fi == 6:
        acts.append(("sleep", 0.5))
        acts.append(("reset",))
    if fi == 7:
        acts.append(("sleep", 2.0))
        acts.append(("resume",))
    acts.append(("sleep", 0.5))
    if end == 1:
        acts.append(("eof",))
    elif end == 2:
        acts.append(("reset",))
    acts.append(("sleep", 7.0))
    results = {}
    for flavour in ("asyncio", "trio"):
        factory = _factory()
        obs = _run(fi, flavour, factory, acts)
        results[flavour] = _norm(obs, factory, ws_unordered=fi == 9)
    a, t = results["asyncio"], results["trio"]
    why = ""
    for key in ("app", "closed_at", "handler_done", "handler_error", "snaps"):
        if a[key] != t[key]:
            why = f"{key} differs: asyncio={a[key]!r} trio={t[key]!r}"[:1500]
            break
    return done(why == "", family=FAMILIES[fi], cut=cut, end=["wait", "EOF", "reset"][end], why=why)
