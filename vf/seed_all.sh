#!/bin/bash
# runs every saved seed against its property's quick check in a scratch worktree of /repo HEAD
wt=/tmp/wt_all
git -C /repo worktree remove --force $wt 2>/dev/null
git -C /repo worktree add -q --detach $wt HEAD
for d in /verif/seeded/*/; do
  id=$(basename $d); prop=${id:0:3}
  p=$d/patch.diff; [ -f $d/patch_rebased.diff ] && p=$d/patch_rebased.diff
  git -C $wt checkout -q -- . ; git -C $wt clean -fdq
  if ! git -C $wt apply $p 2>/dev/null; then echo "== $id APPLY-FAIL"; continue; fi
  out=$(cd /verif && VERIF_REPO=$wt ./check $prop --no-evidence 2>&1); rc=$?
  echo "== $id exit=$rc violations=$(echo "$out" | grep -c '^VIOLATION') $(echo "$out" | grep "^$prop \[" | sed 's/.*wall=/wall=/')"
done
git -C /repo worktree remove --force $wt
