"""Regenerates MANIFEST.json from the table below (run: .venv/bin/python -m vf.manifest_gen)."""
import json, os

ROOT = os.path.dirname(os.path.dirname(os.path.abspath(__file__)))

CLAIMED = {
    "C14": ("§4 C14", "the real asyncio worker_serve (lifespan, asyncio.start_server, base_events.Server) on a virtual loop: 7 startup x 5 shutdown lifespan scripts x connection attempts before startup finished x in-flight request at the trigger; ordering of lifespan messages vs listening/accept/request scopes, error propagation, per-connection state copies (asyncio worker only; the trio worker_serve cannot be executed under the tracer)"),
    "C15": ("§4 C15", "the real asyncio worker_serve on a virtual loop with 1..2 connections of 7 kinds at the trigger, trigger by callable or max_requests, lifespan shutdown completing or hanging: bounded return time, immediate close of idle connections, refusal of new connections/streams, full delivery of requests finishing within the grace period, lifespan.shutdown once and late enough (asyncio worker only)"),
    "C16": ("§4 C16", "differential execution: the same client action list (session family x split offset x ending) is run against the real asyncio TCPServer on a virtual loop and the real trio TCPServer under a MockClock; application message sequences, bytes written per step, server close time and handler completion must be identical"),
    "C07": ("§4 C07", "real TCPServer of both workers on virtual time (asyncio loop with a virtual selector, trio with a manually stepped MockClock): idle-timeout histories (phases x gap classes relative to keep_alive_timeout) against a reference timeline, HTTP/2 and WebSocket idleness, peer loss (EOF, reset, write failure) at five points; H2 idle computation one step"),
    "C04": ("§4 C04", "bounded sequences of odd-but-legal HTTP/2 exchanges (18 kinds, raw frames) next to a sibling stream, single-byte mutations at every (quick: strided) position of 5 valid HTTP/1, HTTP/2 and WebSocket transcripts, odd handshake header values on both carriers: no exception escapes the connection handler and stream-level oddities stay on their stream (frame-level observer)"),
    "C18": ("§4 C18", "mark_request of both workers for every counter/max_requests value (unbounded ints, arbitrary pre-state), h11_max_incomplete_size x head length around the limit x split position, h2_max_concurrent_streams and h2_max_header_list_size against a client that ignores the advertised limits, HTTP/2 keep_alive_max_requests x requests sent"),
    "C13": ("§4 C13", "_check_protocol decision table (Upgrade values x body headers x request line x trailing data), openings (ALPN h2, preface, h2c upgrade with/without same-flight stream, websocket upgrade, plain, h2c with body, pipelined) x every (quick: strided) two-way split of the first flight x both flavours, judged by independent h11/h2/wsproto clients"),
    "C11": ("§4 C11", "handshake validation through the real h11/h2 parsers over header-value tables (Upgrade x Connection x key x version x method x HTTP version; extended CONNECT), Handshake.accept against RFC 6455 (independent SHA-1 token, offered subprotocols, forbidden extra headers), closing orders x carriers x flavours for the disconnect code"),
    "C10": ("§4 C10", "WebsocketBuffer limit for every fragment size and limit (unbounded ints), _handle_events against a reference assembler over bounded event sequences, message sessions (message lists x fragmentation x ping x permessage-deflate x read segmentation x HTTP/1.1 and HTTP/2 carriers) judged by an independent wsproto client"),
    "C09": ("§4 C09", "_send_data for every window/frame size/buffer length (unbounded ints), _window_updated/_priority_updated one step over stream-table membership, flow-control sessions (sizes x initial windows x bounded sequences of WINDOW_UPDATE/SETTINGS/PRIORITY/RST actions) judged by an independent h2 client that enforces flow control, plus a no-spinning check at quiescence"),
    "C03": ("§4 C03", "StreamClosed idempotence from every stream pre-state; closing-cause sessions (client EOF/reset, write failure at write j, Connection: close, keep-alive then EOF, RST_STREAM, client/app close frames) placed before every application step, on HTTP/1.1, HTTP/2 (two streams) and WebSocket, both _handle/Closed flavours: exactly one disconnect, nothing after it, no send raises, one access record"),
    "C05": ("§4 C05", "_handle of both task-group modules for every application outcome, app_send(None) from every stream state, crash-point sessions (every step x raise/return) on HTTP/1.1 with pipelined follow-up, HTTP/2 with a sibling stream, WebSocket handshake/session, judged by independent h11/h2/wsproto clients"),
    "C06": ("§4 C06", "_maybe_recycle one step over all h11 state pairs; pipelines of 1..3 requests x segmentation x application variants x keep_alive_max_requests judged by an independent h11 client against a segment-aware reference"),
    "C01": ("§4 C01", "request scope/body fidelity for HTTP/1.x and HTTP/2 request templates over every (quick: strided) two-way split of the client bytes, ordered multi-cut splits of long bodies, prompt vs late-reading application, raw-header mode; filter_pseudo_headers against a reference for every short header list"),
    "C17": ("§4 C17", "_build_environ against a PEP 3333 reference over path/root_path/header/query tables, body-limit logic for every chunk length and limit (unbounded ints), run_app over 11 WSGI application shapes, non-HTTP scopes"),
    "C20": ("§4 C20", "ProxyFix trust boundary (structure of forwarding headers x trusted_hops x mode, attacker-prefix independence, caller scope untouched), Dispatcher routing over mount tables and all short paths, HTTPS redirect URL construction over scope tables"),
    "C02": ("§4 C02", "HTTPStream.app_send response mapping for every status/method/version/chunking shape, suppress_body for every int status, H11/H2 stream_send header composition for every status and counter value"),
    "C08": ("§4 C08", "StreamBuffer watermark logic for all chunk/pop sizes: one-step rules, an inductive invariant that implies a fixed bound on held data for histories of any length, bounded operation sequences incl. close/drain release"),
    "C12": ("§4 C12", "ASGI send automaton conformance (HTTP and WebSocket) for every bounded message sequence with valid and invalid payloads; header validation over a CR/LF/NUL/':' alphabet"),
    "C19": ("§4 C19", "CLI flag wiring for every flag with unbounded int / short symbolic str values, config-file + CLI interaction, loader agreement (mapping/kwargs/object/pyfile/TOML)"),
}

NOT_APPLICABLE = {}

NOTE = ("Trusted base: CPython 3.12, CrossHair 0.0.110 + z3 as the deciding engine, h11/h2/hpack/hyperframe/priority/wsproto run natively "
        "(sealed, un-traced) and are trusted, argparse/stdlib run traced; every claim is bounded (see evidence coverage.bounds); "
        "a job that does not finish is reported inconclusive in the evidence, never as success.")


def main():
    props = [json.loads(l) for l in open(os.path.join(ROOT, "properties.jsonl"))]
    checks = []
    na = []
    for p in props:
        pid = p["id"]
        if pid in CLAIMED:
            ref, text = CLAIMED[pid]
            checks.append({
                "property_id": pid,
                "quick_cmd": f"./check {pid} --tier quick",
                "thorough_cmd": f"./check {pid} --tier thorough",
                "evidence_file": f"/verif/evidence/{pid}.json",
                "replay_cmd_template": f"./check {pid} --replay {{path}}",
                "engine": "crosshair-z3",
                "level_claimed": {
                    "category": "model_checking",
                    "text": "Bounded symbolic execution of the real hypercorn source (CrossHair/z3): " + text +
                            ". 'Confirmed over all paths' means the assertion holds for every value of the symbolic inputs inside the stated bounds; counterexamples are replayed natively before being reported.",
                    "design_ref": "DESIGN.md " + ref,
                },
                "level_note": NOTE,
                "technique": "solver-based checking of the real code: CrossHair symbolic execution (z3) of hypercorn functions with symbolic inputs/choices, exhaustive path search within bounds, native replay of counterexamples",
            })
        else:
            na.append({"property_id": pid, "reason": NOT_APPLICABLE.get(pid, "check not built yet in this round (harness under construction); not claimed")})
    m = {
        "version": 1,
        "setup_cmd": "./setup.sh",
        "hooks": {
            "guard": "HYPERCORN_VERIF",
            "enable": "no hooks in /repo: harness processes substitute module globals (clock, logger, socket, event loop) from outside",
            "baseline_off_cmd": "cd /repo && /venv/bin/python -m pytest -ra -q -p no:cacheprovider --timeout=900 --continue-on-collection-errors",
            "source_commits": [],
            "add_only": True,
        },
        "engines": [{
            "name": "crosshair-z3",
            "path": "/verif/vf",
            "serves_properties": sorted(CLAIMED),
            "kind_free_text": "CrossHair 0.0.110 (symbolic execution of Python, z3 5.1.0) driven through its API by vf/runner.py + vf/job.py; harnesses in vf/harness/cNN.py import hypercorn from /repo/src at run time",
        }],
        "checks": checks,
        "not_applicable": na,
        "notes": "exit 0 = held on everything explored (KNOWN-FINDING lines are listed defects, see known_findings.json); exit 1 = VIOLATION line, reproduced natively; exit 3 = the check itself is broken.",
    }
    with open(os.path.join(ROOT, "MANIFEST.json"), "w") as f:
        json.dump(m, f, indent=1)
    print("claimed", len(checks), "not applicable", len(na))


if __name__ == "__main__":
    main()
